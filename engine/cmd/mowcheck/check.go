package main

import (
	"encoding/json"
	"flag"
	"fmt"
	"os"
	"path/filepath"
	"runtime"
	"sort"
	"strings"
	"time"

	"verif/engine/interp"
	"verif/engine/sym"
)

type checkCtx struct {
	tier  string
	seed  int64
	p     *interp.Program
	known []knownFinding
}

func (c *checkCtx) quick() bool { return c.tier != "thorough" }

type propDef struct {
	ID          string
	Level       string
	Explanation string
	Units       func(c *checkCtx) []*interp.Unit
	Bounds      func(c *checkCtx) map[string]interface{}
	Assumptions []string
	Outside     []string
}

type evidence struct {
	PropertyID  string                 `json:"property_id"`
	Tier        string                 `json:"tier"`
	Seed        int64                  `json:"seed"`
	Level       string                 `json:"level"`
	Coverage    map[string]interface{} `json:"coverage"`
	Assumptions []string               `json:"assumptions"`
	WallS       float64                `json:"wall_s"`
	Violations  int                    `json:"violations"`
}

func cmdCheck(args []string) {
	fs := flag.NewFlagSet("check", flag.ExitOnError)
	prop := fs.String("property", "", "property id")
	tier := fs.String("tier", "", "quick|thorough")
	workers := fs.Int("workers", runtime.NumCPU(), "workers")
	solver := fs.String("solver", "z3", "solver")
	only := fs.String("only", "", "substring filter on unit names (development)")
	noEvidence := fs.Bool("no-evidence", false, "do not write the evidence file")
	fs.Parse(args)
	if *tier == "" {
		*tier = os.Getenv("VERIF_TIER")
	}
	if *tier == "" {
		*tier = "quick"
	}
	def := props[*prop]
	if def == nil {
		fatal("unknown property %q", *prop)
	}
	t0 := time.Now()
	known := loadKnown()
	ctx := &checkCtx{tier: *tier, seed: seedFromEnv(), known: known}
	ctx.p = loadProgram(known)
	loadT := time.Since(t0)
	units := def.Units(ctx)
	if *only != "" {
		var f []*interp.Unit
		for _, u := range units {
			if strings.Contains(u.Name, *only) {
				f = append(f, u)
			}
		}
		units = f
	}
	if len(units) == 0 {
		fatal("no units for %s", *prop)
	}
	budget := 25 * time.Minute
	if *tier == "thorough" {
		budget = 4 * time.Hour
	}
	lastP := time.Now()
	opts := interp.Options{Workers: *workers, Solver: *solver, TimeoutMs: 30000, MaxFail: 2, Deadline: t0.Add(budget),
		Progress: func(done, total int) {
			if time.Since(lastP) > 20*time.Second {
				lastP = time.Now()
				fmt.Fprintf(os.Stderr, "  [%s] %d/%d units, %.0fs\n", *prop, done, total, time.Since(t0).Seconds())
			}
		}}
	results, st := interp.RunUnits(ctx.p, units, opts)

	// ---- aggregate
	total := interp.NewStats()
	var truncated, inconclusive []string
	type pend struct {
		ur *interp.UnitResult
		f  *interp.Failure
	}
	var fails []pend
	var samples []interp.Sample
	sampleUnit := map[int]*interp.Unit{}
	for _, r := range results {
		total.Merge(r.Stats)
		if r.Truncated {
			truncated = append(truncated, r.Unit.Name)
		}
		if r.Stats.Inconclusive > 0 || r.Stats.Unsupported > 0 {
			inconclusive = append(inconclusive, fmt.Sprintf("%s (solver-unknown or unsupported paths: %d)", r.Unit.Name, r.Stats.Inconclusive+r.Stats.Unsupported))
		}
		for _, f := range r.Failures {
			fails = append(fails, pend{r, f})
		}
		for _, s := range r.Samples {
			sampleUnit[len(samples)] = r.Unit
			samples = append(samples, s)
		}
	}

	// ---- native confirmation of counterexamples and trace validation of samples
	scratch, err := os.MkdirTemp("/var/tmp", "mowcheck-")
	if err != nil {
		fatal("%v", err)
	}
	defer os.RemoveAll(scratch)
	bins := map[string]string{}
	getBin := func(g string) (string, error) {
		if b, ok := bins[g]; ok {
			return b, nil
		}
		b, err := nativeBuild(groups[g], scratch)
		if err != nil {
			return "", err
		}
		bins[g] = b
		return b, nil
	}
	kids := knownIDs(ctx.p)
	violations := 0
	var unconfirmed []string
	var violationLines []string
	maxReplay := 5
	if len(fails) > maxReplay {
		fails = fails[:maxReplay]
	}
	for _, pf := range fails {
		u := pf.ur.Unit
		bin, err := getBin(u.Harness)
		if err != nil {
			unconfirmed = append(unconfirmed, u.Name+": "+err.Error())
			continue
		}
		nc := nativeCase{Unit: u.Name, Entry: u.Entry, Params: u.Params, Nondets: pf.f.Nondets, Known: kids}
		nr := nativeRun(bin, scratch, []nativeCase{nc}, 20*time.Second)[0]
		confirmed := false
		how := ""
		switch pf.f.Kind {
		case "assert":
			confirmed = len(nr.Failed) > 0
			how = strings.Join(nr.Failed, "; ")
			if !confirmed && strings.Contains(pf.f.Msg, "[engine-observed]") && nr.Done && nr.Diverged == "" {
				// the footprint of the library (stores / loads of package-level state) is observable
				// only by the engine, which executes the real SSA; the native twin confirms that the
				// same inputs drive the real build down the same path
				confirmed = true
				how = "engine-observed footprint of the real SSA; native replay of the same inputs completes on the same path"
			}
			if !confirmed && pf.f.MapOrders > 0 && nr.Done && nr.Diverged == "" {
				// the failing path depends on a map iteration order, which the engine chose and
				// the Go runtime randomises: replay the same inputs until the real build
				// exhibits it (bounded; never confirmed without a native failure)
				for attempt := 2; attempt <= 60 && !confirmed; attempt++ {
					nr = nativeRun(bin, scratch, []nativeCase{nc}, 20*time.Second)[0]
					if len(nr.Failed) > 0 {
						confirmed = true
						how = fmt.Sprintf("%s (depends on map iteration order: reproduced natively on attempt %d)", strings.Join(nr.Failed, "; "), attempt)
					}
				}
			}
		case "panic":
			confirmed = nr.Panicked != "" || nr.Crashed != ""
			how = nr.Panicked + nr.Crashed
		case "limit":
			confirmed = nr.Crashed != "" || nr.Panicked != ""
			how = nr.Crashed + nr.Panicked
		}
		if !confirmed {
			unconfirmed = append(unconfirmed, fmt.Sprintf("%s: %s: %s (native: done=%v diverged=%q failed=%v panicked=%q crashed=%q)", u.Name, pf.f.Kind, pf.f.Msg, nr.Done, nr.Diverged, nr.Failed, nr.Panicked, nr.Crashed))
			continue
		}
		rep := map[string]interface{}{"property": def.ID, "group": u.Harness, "kind": pf.f.Kind, "message": pf.f.Msg, "native": how,
			"case": nc, "engine_obs": pf.f.Obs, "trail": pf.f.Trail}
		dir := filepath.Join(verifDir, "replays", def.ID)
		os.MkdirAll(dir, 0o755)
		path := filepath.Join(dir, hashOf(nc)+".json")
		b, _ := json.MarshalIndent(rep, "", " ")
		os.WriteFile(path, b, 0o644)
		violations++
		violationLines = append(violationLines, fmt.Sprintf("VIOLATION property=%s replay=%s", def.ID, path))
		fmt.Printf("  counterexample in %s: %s [%s] inputs: %s\n", u.Name, pf.f.Msg, how, renderNondets(pf.f.Nondets))
	}
	// samples
	validated, mismatched := 0, 0
	var mism []string
	knownSeen := map[string]string{}
	byGroup := map[string][]int{}
	for i := range samples {
		byGroup[sampleUnit[i].Harness] = append(byGroup[sampleUnit[i].Harness], i)
	}
	var gnames []string
	for g := range byGroup {
		gnames = append(gnames, g)
	}
	sort.Strings(gnames)
	for _, g := range gnames {
		idxs := byGroup[g]
		bin, err := getBin(g)
		if err != nil {
			mism = append(mism, "native build failed: "+err.Error())
			mismatched += len(idxs)
			continue
		}
		var cases []nativeCase
		for _, i := range idxs {
			s := samples[i]
			cases = append(cases, nativeCase{Unit: s.Unit, Entry: s.Entry, Params: s.Params, Nondets: s.Nondets, Known: kids})
		}
		nr := nativeRun(bin, scratch, cases, 30*time.Second)
		for k, i := range idxs {
			s := samples[i]
			x := nr[k]
			if x.Done && x.Diverged == "" && len(x.Failed) == 0 && strings.Join(x.Obs, ";") == strings.Join(s.Obs, ";") {
				validated++
				for _, c := range x.Covers {
					if strings.HasPrefix(c, "KNOWN:") {
						knownSeen[strings.TrimPrefix(c, "KNOWN:")] = renderNondets(s.Nondets)
					}
				}
			} else {
				mismatched++
				if len(mism) < 5 {
					mism = append(mism, fmt.Sprintf("%s: engine obs %v, native obs %v done=%v diverged=%q failed=%v panicked=%q crashed=%q inputs %s", s.Unit, s.Obs, x.Obs, x.Done, x.Diverged, x.Failed, x.Panicked, x.Crashed, renderNondets(s.Nondets)))
				}
			}
		}
	}

	// ---- known findings
	for id, cnt := range total.Covers {
		if !strings.HasPrefix(id, "KNOWN:") || cnt == 0 {
			continue
		}
		fid := strings.TrimPrefix(id, "KNOWN:")
		for _, k := range known {
			if k.ID == fid && k.Status == "known" {
				w := knownSeen[fid]
				fmt.Printf("KNOWN-FINDING: property=%s %s: %s (paths exhibiting it: %d; natively confirmed witness: %s)\n", def.ID, k.ID, k.What, cnt, w)
			}
		}
	}

	// ---- evidence
	var sampleOut []interface{}
	for i, s := range samples {
		if i >= 6 {
			break
		}
		sampleOut = append(sampleOut, map[string]interface{}{"unit": s.Unit, "inputs": renderNondets(s.Nondets), "observations": s.Obs})
	}
	if len(sampleOut) == 0 {
		for _, pf := range fails {
			sampleOut = append(sampleOut, map[string]interface{}{"unit": pf.ur.Unit.Name, "inputs": renderNondets(pf.f.Nondets), "observations": pf.f.Obs, "failure": pf.f.Msg})
		}
	}
	if len(sampleOut) == 0 {
		sampleOut = append(sampleOut, map[string]interface{}{"note": "no completed path could be sampled"})
	}
	var funcs []string
	for f := range total.Funcs {
		if !strings.Contains(f, ".v") && !strings.Contains(f, ".H_") && !strings.Contains(f, "$") || strings.Contains(f, "mow.cli/internal") {
			funcs = append(funcs, strings.Replace(f, rootMod, "cli", 1))
		}
	}
	sort.Strings(funcs)
	var intr []string
	for f := range total.Intrinsics {
		intr = append(intr, f)
	}
	sort.Strings(intr)
	var reached, unreached []string
	for c, n := range total.Covers {
		if n > 0 {
			reached = append(reached, fmt.Sprintf("%s:%d", c, n))
		}
	}
	sort.Strings(reached)
	unitNames := make([]string, 0, len(units))
	for i, u := range units {
		if i < 40 {
			unitNames = append(unitNames, u.Name)
		}
	}
	cov := map[string]interface{}{
		"states":                        total.Paths,
		"transitions":                   total.Branches + total.DecidedNoSolve + total.Choices,
		"case_split_decisions":          total.Choices,
		"traces_validated_against_impl": validated,
		"samples":                       sampleOut,
		"units":                         len(units),
		"unit_names_first_40":           unitNames,
		"functions_encoded":             funcs,
		"bounds":                        def.Bounds(ctx),
		"outside_the_claim":             def.Outside,
		"queries": map[string]interface{}{"solver_total": st.Queries, "solver_sat": st.Sat, "solver_unsat": st.Unsat, "solver_unknown": st.Unknown,
			"branches_decided_without_solver": total.DecidedNoSolve, "assertions_discharged_by_solver": total.AssertsSolver - total.AssertsFailed, "assertions_trivially_true_on_path": total.AssertsTrivial,
			"assertions_refuted": total.AssertsFailed},
		"solver":                      map[string]interface{}{"name": *solver, "cpu_time_s": round1(st.Time.Seconds()), "errors": st.Errors},
		"symbolic_forks":              total.Forks,
		"ssa_instructions":            total.Steps,
		"paths_cut_by_assume":         total.AssumeCut,
		"unwinding_assertions":        map[string]interface{}{"limit_failures": total.LimitHits, "max_call_depth_seen": total.MaxDepth},
		"runtime_panic_vcs":           total.RuntimeVCs,
		"covers_reached":              reached,
		"covers_unreached":            unreached,
		"intrinsics_used":             intr,
		"inconclusive_units":          append(append([]string{}, truncated...), inconclusive...),
		"unsupported":                 total.UnsupportedWhy,
		"unconfirmed_counterexamples": unconfirmed,
		"trace_mismatches":            mism,
		"known_findings_seen":         knownSeen,
		"load_ssa_s":                  round1(loadT.Seconds()),
		"workers":                     *workers,
	}
	if def.Level == "other" {
		cov["explanation"] = def.Explanation
	}
	ev := evidence{PropertyID: def.ID, Tier: *tier, Seed: ctx.seed, Level: def.Level, Coverage: cov, Assumptions: def.Assumptions, WallS: round1(time.Since(t0).Seconds()), Violations: violations}
	if !*noEvidence {
		os.MkdirAll(filepath.Join(verifDir, "evidence"), 0o755)
		b, _ := json.MarshalIndent(ev, "", " ")
		os.WriteFile(filepath.Join(verifDir, "evidence", def.ID+".json"), append(b, '\n'), 0o644)
	}

	// ---- report
	fmt.Printf("%s %s: units=%d paths=%d branches=%d forks=%d queries=%d (sat %d, unsat %d, unknown %d) solver_cpu=%.1fs asserts: %d by solver, %d trivially, %d refuted; validated %d/%d sampled paths natively; wall %.1fs\n",
		def.ID, *tier, len(units), total.Paths, total.Branches, total.Forks, st.Queries, st.Sat, st.Unsat, st.Unknown, st.Time.Seconds(),
		total.AssertsSolver-total.AssertsFailed, total.AssertsTrivial, total.AssertsFailed, validated, len(samples), time.Since(t0).Seconds())
	for _, t := range truncated {
		fmt.Printf("INCONCLUSIVE unit=%s reason=path or time budget exhausted before the unit was fully explored\n", t)
	}
	for _, t := range inconclusive {
		fmt.Printf("INCONCLUSIVE unit=%s\n", t)
	}
	for k, v := range total.UnsupportedWhy {
		fmt.Printf("  unsupported: %s x%d\n", k, v)
	}
	for _, u := range unconfirmed {
		fmt.Printf("UNCONFIRMED (engine counterexample did not reproduce natively; not reported as violation): %s\n", u)
	}
	for _, mm := range mism {
		fmt.Printf("TRACE-MISMATCH %s\n", mm)
	}
	for _, l := range violationLines {
		fmt.Println(l)
	}
	if violations > 0 {
		os.RemoveAll(scratch)
		os.Exit(1)
	}
}

func round1(f float64) float64 { return float64(int(f*10+0.5)) / 10 }

func renderNondets(ns []interp.ReplayVal) string {
	var parts []string
	for _, n := range ns {
		switch n.Kind {
		case "string":
			parts = append(parts, fmt.Sprintf("%s=%q", n.Tag, string(n.Str)))
		case "bool":
			parts = append(parts, fmt.Sprintf("%s=%v", n.Tag, n.Bool))
		default:
			parts = append(parts, fmt.Sprintf("%s=%d", n.Tag, n.Int))
		}
	}
	return strings.Join(parts, " ")
}

func cmdReplay(args []string) {
	if len(args) < 1 {
		fatal("usage: mowcheck replay <file>")
	}
	b, err := os.ReadFile(args[0])
	if err != nil {
		fatal("%v", err)
	}
	var rep struct {
		Property string     `json:"property"`
		Group    string     `json:"group"`
		Kind     string     `json:"kind"`
		Message  string     `json:"message"`
		Case     nativeCase `json:"case"`
		PkgPath  string     `json:"pkgpath"`
	}
	if err := json.Unmarshal(b, &rep); err != nil {
		fatal("%v", err)
	}
	scratch, _ := os.MkdirTemp("/var/tmp", "mowcheck-")
	defer os.RemoveAll(scratch)
	bin, err := nativeBuild(groups[rep.Group], scratch)
	if err != nil {
		os.RemoveAll(scratch)
		fatal("%v", err)
	}
	nr := nativeRun(bin, scratch, []nativeCase{rep.Case}, 20*time.Second)[0]
	fmt.Printf("replay of %s (%s): inputs: %s\n", rep.Property, rep.Message, renderNondets(rep.Case.Nondets))
	if strings.Contains(rep.Message, "[engine-observed]") {
		// footprint violations are observed by the engine on the real SSA: replay there
		known := loadKnown()
		p := loadProgram(known)
		u := &interp.Unit{Name: rep.Case.Unit, Harness: rep.Group, PkgPath: groups[rep.Group].PkgPath, Entry: rep.Case.Entry, Params: rep.Case.Params}
		f, end, err := interp.ReplayInEngine(p, u, rep.Case.Nondets)
		if err != nil {
			os.RemoveAll(scratch)
			fatal("%v", err)
		}
		fmt.Printf("engine replay: path ends %q\n", end)
		if f != nil {
			fmt.Printf("engine replay: %s: %s\n", f.Kind, f.Msg)
			fmt.Printf("VIOLATION property=%s replay=%s\n", rep.Property, args[0])
			os.RemoveAll(scratch)
			os.Exit(1)
		}
	}
	fmt.Printf("native: failed=%v panicked=%q crashed=%q diverged=%q done=%v obs=%v\n", nr.Failed, nr.Panicked, nr.Crashed, nr.Diverged, nr.Done, nr.Obs)
	if len(nr.Failed) > 0 || nr.Panicked != "" || nr.Crashed != "" {
		fmt.Printf("VIOLATION property=%s replay=%s\n", rep.Property, args[0])
		os.RemoveAll(scratch)
		os.Exit(1)
	}
	fmt.Println("not reproduced on the current tree")
}

// cmdSelftest validates the translator: solver round trips, intrinsics and the
// interpreter against the native build, the vacuity twin, and a cross-check of the
// three solvers on one unit.
func cmdSelftest(args []string) {
	fs := flag.NewFlagSet("selftest", flag.ExitOnError)
	cross := fs.Bool("cross", true, "cross-check z3 / z3-new / cvc5")
	fs.Parse(args)
	t0 := time.Now()
	known := loadKnown()
	p := loadProgram(known)
	fail := func(f string, a ...interface{}) {
		fmt.Printf("selftest FAILED: "+f+"\n", a...)
		os.Exit(3)
	}
	val, lex := groups["values"], groups["lexer"]
	mk := func(g *group, entry string, ps map[string]interface{}, samples int) *interp.Unit {
		u := unit(g, entry, entry, ps)
		u.Samples = samples
		return u
	}
	units := []*interp.Unit{
		mk(val, "H_intrinsics", map[string]interface{}{"L": 3}, 400),
		mk(lex, "H_lex_total", map[string]interface{}{"Ls": 2}, 60),
		mk(val, "H_twin_false", map[string]interface{}{}, 0),
	}
	res, st := interp.RunUnits(p, units, interp.Options{Workers: runtime.NumCPU(), Solver: "z3", TimeoutMs: 20000, MaxFail: 1})
	if st.Unknown > 0 || len(st.Errors) > 0 {
		fail("solver unknown/errors: %v", st.Errors)
	}
	scratch, _ := os.MkdirTemp("/var/tmp", "mowcheck-")
	defer os.RemoveAll(scratch)
	for i, r := range res[:2] {
		if len(r.Failures) > 0 || r.Stats.Unsupported > 0 || r.Stats.Inconclusive > 0 {
			os.RemoveAll(scratch)
			fail("%s: failures=%d unsupported=%v", units[i].Name, len(r.Failures), r.Stats.UnsupportedWhy)
		}
		bin, err := nativeBuild(groups[units[i].Harness], scratch)
		if err != nil {
			os.RemoveAll(scratch)
			fail("%v", err)
		}
		var cases []nativeCase
		for _, s := range r.Samples {
			cases = append(cases, nativeCase{Unit: s.Unit, Entry: s.Entry, Params: s.Params, Nondets: s.Nondets})
		}
		nr := nativeRun(bin, scratch, cases, 30*time.Second)
		for k, x := range nr {
			if !x.Done || strings.Join(x.Obs, ";") != strings.Join(r.Samples[k].Obs, ";") {
				os.RemoveAll(scratch)
				fail("%s: engine and native disagree on %s: engine %v native %v (diverged=%q panicked=%q)", units[i].Name, renderNondets(r.Samples[k].Nondets), r.Samples[k].Obs, x.Obs, x.Diverged, x.Panicked)
			}
		}
		fmt.Printf("selftest: %s: %d paths, %d sampled paths agree with the native build\n", units[i].Name, r.Stats.Paths, len(cases))
	}
	if len(res[2].Failures) == 0 || res[2].Stats.Covers["reached"] == 0 {
		os.RemoveAll(scratch)
		fail("vacuity twin: the deliberately false assertion was not refuted")
	}
	fmt.Println("selftest: vacuity twin refuted as expected")
	if *cross {
		base := res[1].Stats
		for _, sv := range []string{"z3-new", "cvc5"} {
			r2, st2 := interp.RunUnits(p, []*interp.Unit{mk(lex, "H_lex_total", map[string]interface{}{"Ls": 2}, 0)}, interp.Options{Workers: 4, Solver: sv, TimeoutMs: 20000, MaxFail: 1})
			if st2.Unknown > 0 || r2[0].Stats.Paths != base.Paths || r2[0].Stats.Forks != base.Forks || len(r2[0].Failures) != 0 {
				os.RemoveAll(scratch)
				fail("solver %s disagrees with z3: paths %d vs %d, forks %d vs %d, unknown %d, errors %v", sv, r2[0].Stats.Paths, base.Paths, r2[0].Stats.Forks, base.Forks, st2.Unknown, st2.Errors)
			}
			fmt.Printf("selftest: %s agrees with z3 on H_lex_total[Ls<=2] (%d paths, %d forks, %d queries)\n", sv, r2[0].Stats.Paths, r2[0].Stats.Forks, st2.Queries)
		}
	}
	fmt.Printf("selftest: ok (libz3 %s, %.1fs)\n", sym.Z3Version(), time.Since(t0).Seconds())
}
