package main

func cmdCheck(args []string)    { fatal("check: not built yet") }
func cmdReplay(args []string)   { fatal("replay: not built yet") }
func cmdSelftest(args []string) { fatal("selftest: not built yet") }
