// mowcheck: solver-based checks of jawher/mow.cli (see /verif/DESIGN.md).
package main

import (
	"crypto/sha1"
	"encoding/json"
	"flag"
	"fmt"
	"os"
	"path/filepath"
	"runtime"
	"runtime/debug"
	"runtime/pprof"
	"sort"
	"strconv"
	"strings"
	"time"

	"verif/engine/interp"
)

type knownFinding struct {
	ID       string `json:"id"`
	Property string `json:"property"`
	Status   string `json:"status"` // "known" | "fixed"
	What     string `json:"what"`
	Commit   string `json:"commit,omitempty"`
	Witness  string `json:"witness,omitempty"`
}

func loadKnown() []knownFinding {
	var ks []knownFinding
	b, err := os.ReadFile(filepath.Join(verifDir, "known_findings.json"))
	if err != nil {
		return nil
	}
	if err := json.Unmarshal(b, &ks); err != nil {
		fatal("known_findings.json: %v", err)
	}
	return ks
}

func main() {
	debug.SetGCPercent(400)
	if len(os.Args) < 2 {
		fatal("usage: mowcheck check|run|replay|selftest ...")
	}
	switch os.Args[1] {
	case "check":
		cmdCheck(os.Args[2:])
	case "run":
		cmdRun(os.Args[2:])
	case "replay":
		cmdReplay(os.Args[2:])
	case "selftest":
		cmdSelftest(os.Args[2:])
	case "describe":
		cmdDescribe()
	default:
		fatal("unknown command %s", os.Args[1])
	}
}

func seedFromEnv() int64 {
	if s := os.Getenv("VERIF_SEED"); s != "" {
		if v, err := strconv.ParseInt(s, 10, 64); err == nil {
			return v
		}
	}
	return 0
}

func loadProgram(known []knownFinding) *interp.Program {
	p, err := interp.Load(repoDir, rootMod, symOverlay(nil))
	if err != nil {
		fmt.Println(err)
		fmt.Println("BUILD-FAILED: /repo (with harness overlay) does not type-check; nothing checked")
		os.Exit(2)
	}
	for _, k := range known {
		if k.Status == "known" {
			p.Known[k.ID] = true
		}
	}
	return p
}

// cmdRun: development helper, runs one harness entry with parameters.
func cmdRun(args []string) {
	fs := flag.NewFlagSet("run", flag.ExitOnError)
	grp := fs.String("group", "cli", "harness group")
	entry := fs.String("entry", "", "entry function")
	workers := fs.Int("workers", runtime.NumCPU(), "workers")
	maxPaths := fs.Int64("maxpaths", 0, "path cap")
	solver := fs.String("solver", "z3", "solver")
	samples := fs.Int("samples", 0, "samples to validate natively")
	mapOrder := fs.Int("maporder", 0, "map order mode")
	verbose := fs.Bool("v", false, "verbose")
	cpuprof := fs.String("cpuprofile", "", "write cpu profile")
	memprof := fs.String("memprofile", "", "write heap profile after 40 s")
	var params multiFlag
	fs.Var(&params, "param", "name=value (int if numeric)")
	fs.Parse(args)
	known := loadKnown()
	t0 := time.Now()
	p := loadProgram(known)
	if *cpuprof != "" {
		f, _ := os.Create(*cpuprof)
		pprof.StartCPUProfile(f)
		defer pprof.StopCPUProfile()
	}
	fmt.Printf("loaded in %.1fs\n", time.Since(t0).Seconds())
	if *memprof != "" {
		go func() {
			time.Sleep(40 * time.Second)
			var ms runtime.MemStats
			runtime.ReadMemStats(&ms)
			fmt.Printf("go heap: alloc=%dMB sys=%dMB\n", ms.HeapAlloc>>20, ms.Sys>>20)
			f, _ := os.Create(*memprof)
			pprof.WriteHeapProfile(f)
			f.Close()
		}()
	}
	g := groups[*grp]
	u := &interp.Unit{Name: *entry, Harness: g.Name, PkgPath: g.PkgPath, Entry: *entry, Params: parseParams(params), MaxPaths: *maxPaths, Samples: *samples, MapOrder: *mapOrder}
	res, st := interp.RunUnits(p, []*interp.Unit{u}, interp.Options{Workers: *workers, Solver: *solver, TimeoutMs: 20000, MaxFail: 3})
	r := res[0]
	fmt.Printf("paths=%d branches=%d forks=%d steps=%d asserts(trivial=%d solver=%d failed=%d) assumeCut=%d unsupported=%d limit=%d inconclusive=%d truncated=%v wall=%.1fs\n",
		r.Stats.Paths, r.Stats.Branches, r.Stats.Forks, r.Stats.Steps, r.Stats.AssertsTrivial, r.Stats.AssertsSolver, r.Stats.AssertsFailed,
		r.Stats.AssumeCut, r.Stats.Unsupported, r.Stats.LimitHits, r.Stats.Inconclusive, r.Truncated, time.Since(t0).Seconds())
	fmt.Printf("solver: queries=%d sat=%d unsat=%d unknown=%d time=%.1fs errors=%d\n", st.Queries, st.Sat, st.Unsat, st.Unknown, st.Time.Seconds(), len(st.Errors))
	for _, e := range st.Errors {
		fmt.Println("  solver error:", e)
	}
	for k, v := range r.Stats.UnsupportedWhy {
		fmt.Printf("  unsupported: %s x%d\n", k, v)
	}
	var cs []string
	for k, v := range r.Stats.Covers {
		cs = append(cs, fmt.Sprintf("%s=%d", k, v))
	}
	sort.Strings(cs)
	fmt.Println("covers:", strings.Join(cs, " "))
	for _, f := range r.Failures {
		fmt.Printf("FAILURE %s: %s\n", f.Kind, f.Msg)
		for _, n := range f.Nondets {
			fmt.Printf("   %s %s int=%d bool=%v str=%q\n", n.Kind, n.Tag, n.Int, n.Bool, n.Str)
		}
		fmt.Printf("   obs: %v\n", f.Obs)
	}
	if *verbose {
		for _, s := range r.Samples {
			fmt.Printf("sample %v -> %v\n", s.Nondets, s.Obs)
		}
	}
	if len(r.Failures) > 0 || *samples > 0 {
		scratch, _ := os.MkdirTemp("/var/tmp", "mowcheck-")
		defer os.RemoveAll(scratch)
		bin, err := nativeBuild(g, scratch)
		if err != nil {
			fatal("%v", err)
		}
		var cases []nativeCase
		for _, f := range r.Failures {
			cases = append(cases, nativeCase{Unit: u.Name, Entry: u.Entry, Params: u.Params, Nondets: f.Nondets, Known: knownIDs(p)})
		}
		nf := len(cases)
		for _, s := range r.Samples {
			cases = append(cases, nativeCase{Unit: u.Name, Entry: u.Entry, Params: u.Params, Nondets: s.Nondets, Known: knownIDs(p)})
		}
		nr := nativeRun(bin, scratch, cases, 20*time.Second)
		for i, x := range nr {
			if i < nf {
				fmt.Printf("native replay of failure %d: failed=%v diverged=%q panicked=%q crashed=%q done=%v obs=%v\n", i, x.Failed, x.Diverged, x.Panicked, x.Crashed, x.Done, x.Obs)
			} else {
				s := r.Samples[i-nf]
				ok := x.Done && x.Diverged == "" && strings.Join(x.Obs, ";") == strings.Join(s.Obs, ";")
				if !ok {
					fmt.Printf("SAMPLE MISMATCH %d: engine=%v native=%v diverged=%q panicked=%q crashed=%q failed=%v nondets=%v\n", i-nf, s.Obs, x.Obs, x.Diverged, x.Panicked, x.Crashed, x.Failed, s.Nondets)
				}
			}
		}
		fmt.Printf("native: %d failure replays, %d samples compared\n", nf, len(cases)-nf)
	}
}

func knownIDs(p *interp.Program) []string {
	var out []string
	for k := range p.Known {
		out = append(out, k)
	}
	sort.Strings(out)
	return out
}

type multiFlag []string

func (m *multiFlag) String() string     { return strings.Join(*m, ",") }
func (m *multiFlag) Set(s string) error { *m = append(*m, s); return nil }

func parseParams(ps []string) map[string]interface{} {
	out := map[string]interface{}{}
	for _, p := range ps {
		kv := strings.SplitN(p, "=", 2)
		if len(kv) != 2 {
			fatal("bad --param %q", p)
		}
		if n, err := strconv.Atoi(kv[1]); err == nil {
			out[kv[0]] = n
		} else {
			out[kv[0]] = kv[1]
		}
	}
	return out
}

func hashOf(v interface{}) string {
	b, _ := json.Marshal(v)
	return fmt.Sprintf("%x", sha1.Sum(b))[:12]
}

// cmdDescribe prints, for every property and tier, the units and bounds registered in
// props.go (JSON lines; used by tools/bounds_table.py for DESIGN.md 10.2).
func cmdDescribe() {
	known := loadKnown()
	p := loadProgram(known)
	ids := make([]string, 0, len(props))
	for id := range props {
		ids = append(ids, id)
	}
	sort.Strings(ids)
	for _, id := range ids {
		for _, tier := range []string{"quick", "thorough"} {
			ctx := &checkCtx{tier: tier, seed: seedFromEnv(), known: known, p: p}
			def := props[id]
			us := def.Units(ctx)
			entries := map[string]int{}
			for _, u := range us {
				entries[u.Entry]++
			}
			b, _ := json.Marshal(map[string]interface{}{"id": id, "tier": tier, "units": len(us), "entries": entries, "bounds": def.Bounds(ctx), "outside": def.Outside})
			fmt.Println(string(b))
		}
	}
}
