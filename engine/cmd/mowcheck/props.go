package main

import (
	"fmt"

	"verif/engine/interp"
)

var props = map[string]*propDef{}

func reg(p *propDef) { props[p.ID] = p }

func unit(g *group, entry, name string, params map[string]interface{}) *interp.Unit {
	return &interp.Unit{Name: name, Harness: g.Name, PkgPath: g.PkgPath, Entry: entry, Params: params, Samples: 6}
}

func pick(c *checkCtx, quick, thorough int) int {
	if c.quick() {
		return quick
	}
	return thorough
}

var commonAssumptions = []string{
	"engine: gosym interprets go/ssa built from /repo's working tree on every run (no cache); trusted after native trace validation of sampled paths (traces_validated_against_impl) and native replay of every counterexample",
	"strings have a concrete length on every path (forked over 0..bound) and symbolic bytes; all formulas are QF_(UF)BV",
	"stdlib callees are intrinsics (strings.*, fmt.*, strconv.* as uninterpreted functions, os.Getenv as a harness-owned table, text/tabwriter as pass-through) or interpreted from their own SSA (sort, errors)",
	"solver: z3 (4.8.12) over pipes; unknown or error answers are reported as inconclusive, never as unsat",
}

func init() {
	lex := groups["lexer"]
	reg(&propDef{
		ID: "C08", Level: "model_checking",
		Units: func(c *checkCtx) []*interp.Unit {
			ls := pick(c, 4, 5)
			var us []*interp.Unit
			us = append(us, unit(lex, "H_lex_ref", fmt.Sprintf("H_lex_ref[Ls<=%d]", ls), map[string]interface{}{"Ls": ls}))
			return us
		},
		Bounds: func(c *checkCtx) map[string]interface{} {
			return map[string]interface{}{"Ls_max_spec_bytes": pick(c, 4, 5)}
		},
		Assumptions: commonAssumptions,
		Outside:     []string{"spec strings longer than the stated number of bytes"},
	})
	reg(&propDef{
		ID: "C03", Level: "model_checking",
		Units: func(c *checkCtx) []*interp.Unit {
			ls := pick(c, 4, 5)
			return []*interp.Unit{unit(lex, "H_lex_total", fmt.Sprintf("H_lex_total[Ls<=%d]", ls), map[string]interface{}{"Ls": ls})}
		},
		Bounds: func(c *checkCtx) map[string]interface{} {
			return map[string]interface{}{"Ls_max_spec_bytes": pick(c, 4, 5)}
		},
		Assumptions: commonAssumptions,
		Outside:     []string{"spec strings longer than the stated number of bytes"},
	})
}
