package main

import (
	"fmt"

	"verif/engine/interp"
)

var props = map[string]*propDef{}

func reg(p *propDef) { props[p.ID] = p }

func unit(g *group, entry, name string, params map[string]interface{}) *interp.Unit {
	return &interp.Unit{Name: name, Harness: g.Name, PkgPath: g.PkgPath, Entry: entry, Params: params, Samples: 6}
}

func pickInts(c *checkCtx, quick, thorough []int) []int {
	if c.quick() {
		return quick
	}
	return thorough
}

func pick(c *checkCtx, quick, thorough int) int {
	if c.quick() {
		return quick
	}
	return thorough
}

var commonAssumptions = []string{
	"engine: gosym interprets go/ssa built from /repo's working tree on every run (no cache); trusted after native trace validation of sampled paths (traces_validated_against_impl) and native replay of every counterexample",
	"strings have a concrete length on every path (forked over 0..bound) and symbolic bytes; all formulas are QF_(UF)BV",
	"stdlib callees are intrinsics (strings.*, fmt.*, strconv.* as uninterpreted functions, os.Getenv as a harness-owned table, text/tabwriter as pass-through) or interpreted from their own SSA (sort, errors)",
	"solver: z3 (4.8.12) over pipes; unknown or error answers are reported as inconclusive, never as unsat",
}

// evalList runs a concrete list-producing function of the cli harness.
func evalList(c *checkCtx, fn string) []string {
	out, err := interp.EvalStrings(c.p, groups["cli"].PkgPath, fn)
	if err != nil {
		fatal("%v", err)
	}
	return out
}

// rotate selects every nth element starting at seed mod n.
func everyNth(xs []string, n int, seed int64) []string {
	if n <= 1 {
		return xs
	}
	var out []string
	off := int(((seed % int64(n)) + int64(n)) % int64(n))
	for i := off; i < len(xs); i += n {
		out = append(out, xs[i])
	}
	return out
}

type profile struct {
	name   string
	params map[string]interface{}
}

func acceptUnits(c *checkCtx, check string) []*interp.Unit {
	cli := groups["cli"]
	base := append(evalList(c, "vFamilyCurated"), evalList(c, "vFamilyEnd")...)
	gen := evalList(c, "vFamilyGenerated")
	type plan struct {
		specs []string
		prof  profile
	}
	var plans []plan
	if c.quick() {
		specs := append(append([]string{}, base...), everyNth(gen, 48, c.seed)...)
		plans = []plan{
			{specs, profile{"raw K<=2 L<=3", map[string]interface{}{"profile": "raw", "K": 2, "L": 3}}},
			{specs, profile{"tmpl K<=2 Lp<=1", map[string]interface{}{"profile": "tmpl", "K": 2, "Lp": 1}}},
		}
	} else {
		// (sized by measurement: the plan with every 2nd / 8th generated spec did not finish in 40 min)
		half := append(append([]string{}, base...), everyNth(gen, 16, c.seed)...)
		eighth := append(everyNth(base, 2, c.seed), everyNth(gen, 64, c.seed)...)
		core := []string{"[-a] X", "[OPTIONS] X Y", "(-o X)...", "X... Y", "[-ab | -o] X", "-a [-b] X [Y]", "[-ab] [-o] X", "[-a] -- X...", "-o -- X...", "(-a | -b | -o)..."}
		plans = []plan{
			{half, profile{"raw K<=2 L<=4", map[string]interface{}{"profile": "raw", "K": 2, "L": 4}}},
			{eighth, profile{"raw K<=3 L<=3", map[string]interface{}{"profile": "raw", "K": 3, "L": 3}}},
			{eighth, profile{"tmpl K<=2 Lp<=2", map[string]interface{}{"profile": "tmpl", "K": 2, "Lp": 2}}},
			// (sized by measurement: the template with K<=3 items costs ~75 s per spec, the core template with K<=4 ~15 s)
			{core[:6], profile{"core template K<=4 Lp<=1", map[string]interface{}{"profile": "tmplmini", "K": 4, "Lp": 1}}},
			{core[:1], profile{"tmpl K<=3 Lp<=1", map[string]interface{}{"profile": "tmpl", "K": 3, "Lp": 1}}},
		}
	}
	// long command lines over a small alphabet on repetition-heavy specs
	longSpecs := []string{"(-b | -o) -a [-b] X", "(-a | -b) (-a | -b) X", "(-a X)...", "[-a | -o]... X", "X... Y", "(X Y)...", "[-o]... X...", "[OPTIONS] X...", "[-a] X [-b] Y...", "(X | -o)... Y"}
	if !c.quick() {
		longSpecs = append(longSpecs, "X...", "-a...", "[X...] Y", "-a... -b...")
	}
	plans = append(plans, plan{longSpecs, profile{"long K<=5 over {positional, flag, valued option}", map[string]interface{}{"profile": "long", "K": 5, "Lp": 1}}})
	if !c.quick() {
		plans = append(plans, plan{longSpecs[:2], profile{"long K<=6 over {positional, flag, valued option}", map[string]interface{}{"profile": "long", "K": 6, "Lp": 1}}})
	}
	var us []*interp.Unit
	for _, pl := range plans {
		for _, sp := range pl.specs {
			ps := map[string]interface{}{"spec": sp, "check": check, "shared": 0}
			for k, v := range pl.prof.params {
				ps[k] = v
			}
			u := unit(cli, "H_accept", fmt.Sprintf("H_accept[%q %s]", sp, pl.prof.name), ps)
			u.Samples = 1
			us = append(us, u)
		}
	}
	// C01-M: one matcher step against the reference step, on wider raw tokens
	ms := func(m string, g, k, l int) {
		u := unit(cli, "H_match_step", fmt.Sprintf("H_match_step[%s group %d raw K<=%d L<=%d]", m, g, k, l), map[string]interface{}{"matcher": m, "group": g, "K": k, "L": l})
		u.Samples = 3
		us = append(us, u)
	}
	if c.quick() {
		ms("opt", 0, 3, 3)
		ms("opt", 0, 2, 4)
		for g := 0; g < 4; g++ {
			ms("group", g, 2, 3)
		}
		ms("group", 3, 2, 4)
		ms("arg", 0, 2, 2)
	} else {
		ms("opt", 0, 3, 4)
		ms("opt", 0, 2, 5)
		for g := 0; g < 4; g++ {
			ms("group", g, 3, 3)
		}
		ms("group", 3, 2, 5)
		ms("group", 2, 2, 5)
		ms("arg", 0, 3, 3)
	}
	if check == "C01" {
		// structural part: the compiled graph denotes the spec's language over matcher labels,
		// for label sequences of any length (k-induction), for every token sequence up to k
		k := 4
		if !c.quick() {
			k = 5
		}
		u := unit(groups["parser"], "H_struct", fmt.Sprintf("H_struct[k<=%d tokens]", k), map[string]interface{}{"k": k, "mini": 0})
		u.Samples = 12
		us = append(us, u)
		um := unit(groups["parser"], "H_struct", fmt.Sprintf("H_struct[k<=%d tokens over the 10 structural kinds]", k+1), map[string]interface{}{"k": k + 1, "mini": 1})
		um.Samples = 12
		us = append(us, um)
	}
	if c.quick() {
		for _, sp := range []string{"[OPTIONS]", "(-e | -o)...", "[-o] [-a] X", "X..."} {
			ps := map[string]interface{}{"spec": sp, "check": check, "shared": 0, "profile": "tmplmini", "K": 3, "Lp": 1}
			u := unit(cli, "H_accept", fmt.Sprintf("H_accept[%q core template K<=3]", sp), ps)
			u.Samples = 1
			us = append(us, u)
		}
	}
	// declarations sharing one non-empty default slice (values must replace it, never be written through it)
	for _, sp := range []string{"[-o] [-e]", "[OPTIONS] X Y", "[-e] [-o] X", "(-o X)... [-e]"} {
		ps := map[string]interface{}{"spec": sp, "check": check, "shared": 1, "profile": "tmpl", "K": 2, "Lp": 1}
		u := unit(cli, "H_accept", fmt.Sprintf("H_accept[%q shared defaults, tmpl K<=2]", sp), ps)
		u.Samples = 1
		us = append(us, u)
	}
	return us
}

// endUnits: the END family through H_accept with both assertions (C09: a spec-level
// `--` acts like one on the command line; what follows is bound verbatim).
func endUnits(c *checkCtx) []*interp.Unit {
	cli := groups["cli"]
	var us []*interp.Unit
	l := 2 // (thorough: K<=3 tokens of <=2 bytes; 3 bytes did not finish within the tier's budget)
	specs := append(evalList(c, "vFamilyEnd"), "X...", "[-a] X...", "X [Y]...")
	for _, sp := range specs {
		ps := map[string]interface{}{"spec": sp, "check": "C09", "shared": 0, "profile": "raw", "K": 3, "L": l}
		if c.quick() {
			ps["K"] = 2
			ps["L"] = 3
		}
		u := unit(cli, "H_accept", fmt.Sprintf("H_accept[%q verbatim tail, raw K<=%v L<=%v]", sp, ps["K"], ps["L"]), ps)
		u.Samples = 1
		us = append(us, u)
	}
	// option tokens and help tokens after a command-line `--` are data (core template, 3-4 items)
	k := 3
	if !c.quick() {
		k = 4
	}
	for _, sp := range []string{"[-a] [-b] X...", "[OPTIONS] X...", "[-a] [-b] -- X...", "[-o] X [Y]...", "X... Y", "[-a] [X] Y"} {
		ps := map[string]interface{}{"spec": sp, "check": "C09", "shared": 0, "profile": "tmplmini", "K": k, "Lp": 1}
		u := unit(cli, "H_accept", fmt.Sprintf("H_accept[%q verbatim tail, core template K<=%d]", sp, k), ps)
		u.Samples = 1
		us = append(us, u)
	}
	return us
}

func init() {
	cli := groups["cli"]
	specUnits := func(entry string, specs []string, profs []profile, samples int) []*interp.Unit {
		var us []*interp.Unit
		for _, sp := range specs {
			for _, pr := range profs {
				ps := map[string]interface{}{"spec": sp, "envmask": 15, "defEqEnv": 0, "names": 0, "custom": 0}
				for k, v := range pr.params {
					ps[k] = v
				}
				u := unit(cli, entry, fmt.Sprintf("%s[%q %s]", entry, sp, pr.name), ps)
				u.Samples = samples
				us = append(us, u)
			}
		}
		return us
	}
	reg(&propDef{
		ID: "C01", Level: "model_checking",
		Units: func(c *checkCtx) []*interp.Unit {
			us := acceptUnits(c, "C01")
			// single options backed by a set environment variable: the verdict is the reference's with the
			// option satisfied when absent (differential clause of H_envmono; group-free specs)
			return append(us, specUnits("H_envmono", []string{"-e [-a] X", "-e [-a] [X]", "-o -e X", "[-a] -e [-o] X..."},
				[]profile{{"env-backed single options, tmpl K<=2 Lp<=1, env subsets of {VA,VE}", map[string]interface{}{"profile": "tmpl", "K": 2, "Lp": 1, "envmask": 9, "defEqEnv": 0}}}, 1)...)
		},
		Bounds: func(c *checkCtx) map[string]interface{} {
			if c.quick() {
				return map[string]interface{}{"specs": "curated + END family + every 48th generated spec (rotated by VERIF_SEED)", "raw": "K<=2 tokens of L<=3 arbitrary bytes", "template": "K<=2 items over 24 documented/malformed shapes, payload <=1 byte", "long": "K<=5 items over {positional, short flag, valued option + separate value} on 8 repetition-heavy specs", "structural (H_struct)": "every sequence of <=4 spec tokens over 16 kinds that compiles: language equivalence of the compiled graph and the Glushkov automaton of the reference regular expression, proved by k-induction in z3 for label sequences of any length"}
			}
			return map[string]interface{}{"specs": "curated (86) + END family (19); every 16th of the 1476 generated specs for raw K<=2 L<=4; every 2nd curated/END and every 64th generated spec for raw K<=3 and the 2-byte template (rotated by VERIF_SEED)", "raw": "K<=2 tokens of L<=4 arbitrary bytes; K<=3 tokens of L<=3 bytes", "template": "K<=2 items over 24 documented/malformed shapes with payload <=2 bytes; K<=3 items (payload 1 byte) on 1 core spec; K<=4 items over the 5 well-formed core shapes on 6 core specs", "long": "K<=5 items over {positional, short flag, valued option + separate value} on 14 repetition-heavy specs, K<=6 on 2 of them", "structural (H_struct)": "every sequence of <=5 spec tokens over 16 kinds that compiles: language equivalence by k-induction, label sequences of any length"}
		},
		Assumptions: append([]string{"declaration table: flags -a/--aa -b/--bb, valued -o/--oo -e/--ee (string lists), arguments X Y; no environment variables", "no token equals -h/--help (C14); no folded token with '=' after a flag; inputs of DESIGN.md 4.5 (iv) excluded for specs containing `--`", "flag values written as -a=v convert through strconv.ParseBool modelled as an uninterpreted function shared by implementation and reference"}, commonAssumptions...),
		Outside:     []string{"command lines longer than K tokens / L bytes", "specs outside the family", "other declaration tables"},
	})
	reg(&propDef{
		ID: "C02", Level: "model_checking",
		Units: func(c *checkCtx) []*interp.Unit {
			us := acceptUnits(c, "C02")
			// user-defined value types: the variable receives exactly the written values (the Set log)
			for _, x := range [][3]int{{4, 1, 0}, {4, 1, 1}, {0, 1, 1}, {2, 0, 1}, {6, 1, 0}} {
				combo, opt, fa := x[0], x[1], x[2]
				lp := 1
				if opt == 0 {
					lp = 2
				}
				u := unit(cli, "H_custom", fmt.Sprintf("H_custom[combo %03b %s IsBoolFlag()=%v Lp<=%d, + positional]", combo, map[int]string{1: "opt", 0: "arg"}[opt], fa == 1, lp),
					map[string]interface{}{"combo": combo, "opt": opt, "Lp": lp, "envLen": 1, "flagAnswer": fa, "withArg": opt, "group": 0, "fold": 0, "short": 0})
				u.Samples = 2
				us = append(us, u)
			}
			// env-backed options left out of the command line: positional and option values are those
			// written (value-identity clause of H_envmono), typed options hold the values written (H_prec)
			us = append(us, specUnits("H_envmono", []string{"[-e] X...", "[OPTIONS] X...", "-e [-a] X"},
				[]profile{{"tmpl K<=2 Lp<=1, env subsets of {VA,VE}", map[string]interface{}{"profile": "tmpl", "K": 2, "Lp": 1, "envmask": 9, "defEqEnv": 0}}}, 1)...)
			for _, t := range []int{2, 5} {
				tn := map[int]string{2: "int", 5: "ints"}[t]
				u := unit(cli, "H_prec", fmt.Sprintf("H_prec[%s opt, cli<=3B, no env]", tn),
					map[string]interface{}{"type": t, "opt": 1, "check": "C06", "envLen": 1, "cliLen": 3, "maxEnv": 0, "withArg": 0, "ptr": 0, "sibling": 0, "specEnd": 0})
				u.Samples = 2
				us = append(us, u)
			}
			return us
		},
		Bounds: func(c *checkCtx) map[string]interface{} {
			b := props["C01"].Bounds(c)
			b["typed and env-backed"] = "int / ints options with payloads <=3 bytes (value = strconv's parse of what was written); 3 specs with env-backed options absent from the command line (values identical with and without the variable)"
			b["custom values"] = "5 shapes of user-defined value types (flag-like answering true / false, multi-valued, plain) as option (+ a positional) or argument: the Set calls are exactly the written values, in order"
			return b
		},
		Assumptions: props["C01"].Assumptions,
		Outside:     props["C01"].Outside,
	})
	lex := groups["lexer"]
	par := groups["parser"]
	// respellNames: C10 over a table of unusual but legal option names.
	respellNames := func(n int) []*interp.Unit {
		return specUnits("H_respell", []string{"[OPTIONS]", "[--ipv4] [--keepGoing] [--outDir] [--e_6-x]", "--ipv4 [-k] [-o]", "[-k] [--ipv4] [--e_6-x]"},
			[]profile{{fmt.Sprintf("names 4/ipv4 k/keepGoing o/outDir 6/e_6-x, n<=%d Lp<=1", n), map[string]interface{}{"n": n, "Lp": 1, "flagsOnly": 0, "names": 1}}}, 1)
	}
	respellCustom := func(n int) []*interp.Unit {
		return specUnits("H_respell", []string{"[-a] [-b] [-o]", "[OPTIONS]", "[-ab] [-o]"},
			[]profile{{fmt.Sprintf("flags are user-defined value types, n<=%d Lp<=1", n), map[string]interface{}{"n": n, "Lp": 1, "flagsOnly": 0, "custom": 1}}}, 1)
	}
	endFree := func(specs []string) []string {
		var out []string
		for _, s := range specs {
			if !containsEnd(s) {
				out = append(out, s)
			}
		}
		return out
	}
	withOption := func(specs []string) []string {
		var out []string
		for _, s := range specs {
			if hasOption(s) {
				out = append(out, s)
			}
		}
		return out
	}

	reg(&propDef{
		ID: "C08", Level: "model_checking",
		Units: func(c *checkCtx) []*interp.Unit {
			ls, k, ld := pick(c, 4, 5), pick(c, 4, 5), pick(c, 4, 5)
			return []*interp.Unit{
				unit(lex, "H_lex_ref", fmt.Sprintf("H_lex_ref[Ls<=%d]", ls), map[string]interface{}{"Ls": ls}),
				unit(par, "H_parse_ref", fmt.Sprintf("H_parse_ref[k<=%d]", k), map[string]interface{}{"k": k}),
				unit(cli, "H_doinit_total", fmt.Sprintf("H_run_panics[Ls<=%d]", ld), map[string]interface{}{"Ls": ld, "sub": 0, "argvKind": 0}),
				unit(cli, "H_doinit_total", fmt.Sprintf("H_run_panics[spec of a sub-command, 3 policies, Ls<=%d]", ld-1), map[string]interface{}{"Ls": ld - 1, "sub": 1, "argvKind": 0}),
				unit(cli, "H_doinit_total", fmt.Sprintf("H_run_panics[help requested, Ls<=%d]", ld-1), map[string]interface{}{"Ls": ld - 1, "sub": 0, "argvKind": 1}),
				unit(cli, "H_doinit_total", fmt.Sprintf("H_run_panics[version declared and requested, Ls<=%d]", ld-1), map[string]interface{}{"Ls": ld - 1, "sub": 0, "argvKind": 2}),
				unit(cli, "H_doinit_total", fmt.Sprintf("H_run_panics[no arguments, Ls<=%d]", ld-1), map[string]interface{}{"Ls": ld - 1, "sub": 0, "argvKind": 3}),
				unit(cli, "H_doinit_total", fmt.Sprintf("H_run_panics[long version name requested, Ls<=%d]", ld-1), map[string]interface{}{"Ls": ld - 1, "sub": 0, "argvKind": 4}),
			}
		},
		Bounds: func(c *checkCtx) map[string]interface{} {
			return map[string]interface{}{"H_lex_ref": fmt.Sprintf("all byte strings of <= %d bytes (symbolic bytes, solver-decided classes)", pick(c, 4, 5)),
				"H_parse_ref":  fmt.Sprintf("all sequences of <= %d tokens over 16 token kinds (declared and undeclared names); kinds are case splits enumerated by the engine", pick(c, 4, 5)),
				"H_run_panics": fmt.Sprintf("Run on all spec byte strings of 1..%d bytes over the table {-a/--aa, -o/--oo, X}", pick(c, 4, 5))}
		},
		Assumptions: commonAssumptions,
		Outside:     []string{"spec strings longer than the stated number of bytes / tokens", "declaration tables other than {a/aa flag, o/oo valued, X}"},
	})
	reg(&propDef{
		ID: "C03", Level: "model_checking",
		Units: func(c *checkCtx) []*interp.Unit {
			ls, ld := pick(c, 4, 5), pick(c, 4, 5)
			us := []*interp.Unit{
				unit(lex, "H_lex_total", fmt.Sprintf("H_lex_total[Ls<=%d]", ls), map[string]interface{}{"Ls": ls}),
				unit(cli, "H_doinit_total", fmt.Sprintf("H_doinit_total[Ls<=%d]", ld), map[string]interface{}{"Ls": ld, "sub": 0, "argvKind": 0}),
			}
			// command trees: help tokens, `--`, command names and raw tokens under the three policies
			for _, t := range pickInts(c, []int{1, 6, 8}, []int{1, 2, 3, 4, 5, 6, 7, 8}) {
				k := pick(c, 3, 4)
				u := unit(cli, "H_tree_total", fmt.Sprintf("H_tree_total[tree %d, K<=%d L<=1]", t, k), map[string]interface{}{"tree": t, "K": k, "L": 1, "env": 0, "subpol": 0, "named": 0})
				u.Samples = 2
				us = append(us, u)
			}
			specs := append(evalList(c, "vFamilyEnv"), evalList(c, "vFamilyEnvEnd")...)
			cur := append(evalList(c, "vFamilyCurated"), evalList(c, "vFamilyEnd")...)
			var profs []profile
			if c.quick() {
				specs = append(specs, everyNth(cur, 6, c.seed)...)
				profs = []profile{{"raw K<=2 L<=2", map[string]interface{}{"profile": "raw", "K": 2, "L": 2}}}
				tm := append([]string{"[--aa] [--oo] [--ee]", "[-a] [-o] X...", "[OPTIONS] X", "[OPTIONS]"}, everyNth(specs, 6, c.seed)...)
				us = append(us, specUnits("H_apply_total", tm, []profile{{"tmpl K<=2 Lp<=1, env subsets of {VA,VE}", map[string]interface{}{"profile": "tmpl", "K": 2, "Lp": 1, "envmask": 9}}}, 1)...)
			} else {
				// (sized by measurement: curated + generated specs x two profiles = 680 units did not fit in 40 min)
				specs = append(specs, everyNth(cur, 2, c.seed)...)
				specs = append(specs, everyNth(evalList(c, "vFamilyGenerated"), 64, c.seed)...)
				profs = []profile{{"raw K<=2 L<=3, env subsets of {VA,VE}", map[string]interface{}{"profile": "raw", "K": 2, "L": 3, "envmask": 9}},
					{"tmpl K<=2 Lp<=1, env subsets of {VA,VE}", map[string]interface{}{"profile": "tmpl", "K": 2, "Lp": 1, "envmask": 9}}}
			}
			return append(us, specUnits("H_apply_total", specs, profs, 1)...)
		},
		Bounds: func(c *checkCtx) map[string]interface{} {
			return map[string]interface{}{"H_lex_total/H_doinit_total": fmt.Sprintf("all spec byte strings of <= %d bytes", pick(c, 4, 5)),
				"H_apply_total": "env-heavy + curated (thorough: every 2nd curated, every 64th generated) specs x subsets of the options backed by a set environment variable (all 16 on the env-heavy specs in the quick tier, {VA,VE} otherwise) x argv " + map[bool]string{true: "raw K<=2 L<=2", false: "raw K<=2 L<=3 and template K<=2"}[c.quick()],
				"H_tree_total":  "command trees (sub-commands, own -h options, version flag) x K<=3/4 tokens from {help tokens, --, version names, aliases, raw byte} x 3 policies: no runtime error, panics only under PanicOnError",
				"unwinding":     "recursion depth of fsm apply <= (bytes+tokens+2)*(4*len(spec)+6); calls of simplifySelf <= 40*(len(spec)+2)^2; 20M interpreted instructions per path"}
		},
		Assumptions: commonAssumptions,
		Outside:     []string{"specs / argument vectors beyond the bounds", "\"promptly\" is read as the derived step bounds, not wall-clock time"},
	})
	reg(&propDef{
		ID: "C09", Level: "model_checking",
		Units: func(c *checkCtx) []*interp.Unit {
			cur := endFree(evalList(c, "vFamilyCurated"))
			gen := endFree(evalList(c, "vFamilyGenerated"))
			if c.quick() {
				specs := append(everyNth(cur, 3, c.seed), everyNth(gen, 64, c.seed)...)
				us := append(endUnits(c), specUnits("H_dd_insert", specs, []profile{{"tmpl K<=2 Lp<=1", map[string]interface{}{"profile": "tmpl", "K": 2, "Lp": 1}}, {"raw K<=2 L<=2", map[string]interface{}{"profile": "raw", "K": 2, "L": 2}}}, 1)...)
				return append(us, ddTreeUnits([]int{2, 3, 5}, 3, 2)...)
			}
			specs := append(everyNth(cur, 2, c.seed), everyNth(gen, 48, c.seed)...)
			us := append(endUnits(c), specUnits("H_dd_insert", specs, []profile{{"tmpl K<=2 Lp<=2", map[string]interface{}{"profile": "tmpl", "K": 2, "Lp": 2}}, {"core template K<=3 Lp<=1", map[string]interface{}{"profile": "tmplmini", "K": 3, "Lp": 1}}, {"raw K<=2 L<=3", map[string]interface{}{"profile": "raw", "K": 2, "L": 3}}}, 1)...)
			return append(us, ddTreeUnits([]int{1, 2, 3, 4, 5, 7}, 4, 2)...)
		},
		Bounds: func(c *checkCtx) map[string]interface{} {
			return map[string]interface{}{"insertion": "every insertion point 0..K whose tail consists of non-dash positionals, including the very end",
				"argv":  map[bool]string{true: "template K<=2 items (payload 1 byte), raw K<=2 L<=2", false: "template K<=2 items (payload <=2 bytes), core template K<=3, raw K<=2 L<=3"}[c.quick()],
				"trees": "the same insertion into one level's own tokens of a command tree (sub-commands follow): routing, verdict and every level's bindings unchanged; raw K<=3/4 tokens of <=2 bytes",
				"specs": "`--`-free curated and generated specs (subset rotated by VERIF_SEED) for the insertion clause; END family (15 specs with a spec-level `--`) + 3 repetition specs through the differential harness H_accept (acceptance and verbatim bindings vs the reference) for the spec-level `--` / verbatim-tail clauses"}
		},
		Assumptions: append([]string{"no environment-backed options; token p-1 is not a valued option waiting for its value; no `--` before the insertion point"}, commonAssumptions...),
		Outside:     []string{"longer command lines"},
	})
	reg(&propDef{
		ID: "C10", Level: "model_checking",
		Units: func(c *checkCtx) []*interp.Unit {
			all := withOption(endFree(append(evalList(c, "vFamilyCurated"), evalList(c, "vFamilyGenerated")...)))
			core := []string{"[-o] [-e]", "-o -e", "[-a] [-o]", "[-a] [-o] [X]", "-a... [-b]", "-a... -b", "[OPTIONS]", "[--aa] [--oo] [--ee]", "-a -o", "-a -o X", "[-ab] [-o] X", "[-ab] X [-o]", "[-o] [-a]", "-b [-a] [-o]"}
			if c.quick() {
				us := specUnits("H_respell", append(core, everyNth(all, 64, c.seed)...), []profile{{"n<=2 Lp<=1", map[string]interface{}{"n": 2, "Lp": 1, "flagsOnly": 0, "names": 0}}}, 1)
				us = append(us, respellNames(2)...)
				us = append(us, respellCustom(2)...)
				us = append(us, specUnits("H_respell", []string{"((-o -b) | (-a -o)) X", "(-b | -e) -a [-b] X"}, []profile{{"n<=3 Lp<=1", map[string]interface{}{"n": 3, "Lp": 1, "flagsOnly": 0}}}, 1)...)
				return append(us, specUnits("H_respell", []string{"-a... [-b]", "-a... -b", "(-a | -b)...", "[-ab]..."}, []profile{{"flags only n<=4", map[string]interface{}{"n": 4, "Lp": 1, "flagsOnly": 1, "names": 0}}}, 1)...)
			}
			us := specUnits("H_respell", append(core, everyNth(all, 24, c.seed)...), []profile{{"n<=2 Lp<=2", map[string]interface{}{"n": 2, "Lp": 2, "flagsOnly": 0, "names": 0}}}, 1)
			us = append(us, specUnits("H_respell", []string{"-a... [-b]", "-a... -b", "(-a | -b)...", "[-ab]...", "-a... -b...", "[OPTIONS]"}, []profile{{"flags only n<=5", map[string]interface{}{"n": 5, "Lp": 1, "flagsOnly": 1, "names": 0}}}, 1)...)
			us = append(us, respellNames(3)...)
			us = append(us, respellCustom(3)...)
			return append(us, specUnits("H_respell", everyNth(all, 192, c.seed), []profile{{"n<=3 Lp<=1", map[string]interface{}{"n": 3, "Lp": 1, "flagsOnly": 0, "names": 0}}}, 1)...)
		},
		Bounds: func(c *checkCtx) map[string]interface{} {
			return map[string]interface{}{"items": map[bool]string{true: "n<=2 items, payload 1 symbolic byte; n<=4 flag occurrences (deep folds)", false: "n<=2 items payload <=2 bytes; n<=3 items payload 1 byte; n<=5 flag occurrences"}[c.quick()],
				"names":     "the table a/aa b/bb o/oo e/ee, and on 4 specs the table 4/ipv4 k/keepGoing o/outDir 6/e_6-x (digit short names, upper-case letters, `_` and `-` in long names)",
				"spellings": "every form (4 for flags, 5 for valued options) and every legal folding of adjacent short forms, compared with the canonical spelling (one token per occurrence, long form with '=')"}
		},
		Assumptions: append([]string{"values are non-empty and do not start with '-' (separate form) or '=' (attached form); no option item after a `--` item", "forms and folds are case splits enumerated by the engine; payload bytes are symbolic"}, commonAssumptions...),
		Outside:     []string{"more than n occurrences"},
	})
	reg(&propDef{
		ID: "C11", Level: "model_checking",
		Units: func(c *checkCtx) []*interp.Unit {
			all := withOption(endFree(append(evalList(c, "vFamilyCurated"), evalList(c, "vFamilyGenerated")...)))
			core := []string{"[-o] [-e]", "-o -e", "[-a] [-o]", "[-a] [-o] [X]", "[-b] [-o] [-e]...", "-a [-b]... [-o]", "[OPTIONS]", "[-ab]", "[-ab] [-o]", "[-a] [-b]", "-b [-a] [-o]"}
			envSpecs := []string{"[OPTIONS]", "[-ab]", "-a [-b]... [-o]", "[OPTIONS] X"}
			if c.quick() {
				us := specUnits("H_swap", append(core, everyNth(all, 32, c.seed)...), []profile{{"n<=2 Lp<=1", map[string]interface{}{"n": 2, "Lp": 1, "env": 0, "flagsOnly": 0}}}, 1)
				us = append(us, specUnits("H_swap", envSpecs, []profile{{"n<=2 Lp<=1 env subsets", map[string]interface{}{"n": 2, "Lp": 1, "env": 1, "flagsOnly": 0}}}, 1)...)
				us = append(us, specUnits("H_swap", []string{"[OPTIONS]", "[-ab]", "-a... [-b]", "(-a | -b)..."}, []profile{{"flags only n<=4, env subsets of {VA,VB}", map[string]interface{}{"n": 4, "Lp": 1, "env": 1, "flagsOnly": 1, "envmask": 3}}}, 1)...)
				us = append(us, specUnits("H_swap", []string{"[-a] [-b]", "[-b] [-o] [-a]", "[OPTIONS]"}, []profile{{"flags are user-defined value types, n<=2 Lp<=1", map[string]interface{}{"n": 2, "Lp": 1, "env": 0, "flagsOnly": 0, "custom": 1}}}, 1)...)
				us = append(us, specUnits("H_swap", []string{"[-a] [-o] X...", "[-b] [-o] [-a]"}, []profile{{"valued options are user-defined types with IsBoolFlag()=false, n<=2 Lp<=1", map[string]interface{}{"n": 2, "Lp": 1, "env": 0, "flagsOnly": 0, "custom": 2}}}, 1)...)
				return append(us, specUnits("H_swap", append([]string{"[-a] [-o] [X]", "[-o] [-e] [-a]"}, everyNth(all, 960, c.seed)...), []profile{{"n<=3 Lp<=1", map[string]interface{}{"n": 3, "Lp": 1, "env": 0, "flagsOnly": 0}}}, 1)...)
			}
			// (sized by measurement: n<=3 on ~35 specs plus n<=3 with env subsets did not fit in 18 min)
			us := specUnits("H_swap", append(core, everyNth(all, 16, c.seed)...), []profile{{"n<=2 Lp<=2", map[string]interface{}{"n": 2, "Lp": 2, "env": 0, "flagsOnly": 0}}}, 1)
			us = append(us, specUnits("H_swap", core, []profile{{"n<=3 Lp<=1", map[string]interface{}{"n": 3, "Lp": 1, "env": 0, "flagsOnly": 0}}}, 1)...)
			us = append(us, specUnits("H_swap", []string{"[OPTIONS]", "[-ab]", "-a... [-b]", "(-a | -b)...", "[-ab]... X"}, []profile{{"flags only n<=5, env subsets of {VA,VB}", map[string]interface{}{"n": 5, "Lp": 1, "env": 1, "flagsOnly": 1, "envmask": 3}}}, 1)...)
			us = append(us, specUnits("H_swap", []string{"[-a] [-o] X...", "[-b] [-o] [-a]"}, []profile{{"valued options are user-defined types with IsBoolFlag()=false, n<=2 Lp<=1", map[string]interface{}{"n": 2, "Lp": 1, "env": 0, "flagsOnly": 0, "custom": 2}}}, 1)...)
			us = append(us, specUnits("H_swap", []string{"[-a] [-b]", "[-b] [-o] [-a]", "[OPTIONS]", "[-ab] [-o]", "-a [-b] X"}, []profile{{"flags are user-defined value types, n<=3 Lp<=1", map[string]interface{}{"n": 3, "Lp": 1, "env": 0, "flagsOnly": 0, "custom": 1}}}, 1)...)
			return append(us, specUnits("H_swap", envSpecs, []profile{{"n<=2 Lp<=1, all 16 env subsets", map[string]interface{}{"n": 2, "Lp": 1, "env": 1, "flagsOnly": 0}}}, 1)...)
		},
		Bounds: func(c *checkCtx) map[string]interface{} {
			return map[string]interface{}{"items": "n<=2 (quick; n<=3 on a few specs and in thorough) items, payload 1 symbolic byte; n<=4 (thorough 5) flag occurrences with every subset of environment-backed options; every adjacent pair of occurrences of different options; every spelling incl. folded pairs"}
		},
		Assumptions: append([]string{"both occurrences precede any `--`"}, commonAssumptions...),
		Outside:     []string{"more than n occurrences"},
	})
	reg(&propDef{
		ID: "C12", Level: "model_checking",
		Units: func(c *checkCtx) []*interp.Unit {
			specs := append(evalList(c, "vFamilyEnv"), evalList(c, "vFamilyEnvEnd")...)
			cur := append(evalList(c, "vFamilyCurated"), evalList(c, "vFamilyEnd")...)
			core := []string{"-e X", "[OPTIONS]", "[OPTIONS] X", "-e...", "[-e...] X", "(-e | -a)... X", "-ae", "-e -- X"}
			if c.quick() {
				us := specUnits("H_envmono", append(core, append(everyNth(specs, 6, c.seed), everyNth(cur, 40, c.seed)...)...), []profile{{"tmpl K<=2 Lp<=1, env subsets of {VA,VE}", map[string]interface{}{"profile": "tmpl", "K": 2, "Lp": 1, "envmask": 9}}}, 1)
				us = append(us, specUnits("H_envmono", []string{"-e X", "-a -e", "[OPTIONS] X [OPTIONS]", "-o [-a]"}, []profile{{"raw K<=2 L<=2, declared defaults equal to the environment values", map[string]interface{}{"profile": "raw", "K": 2, "L": 2, "envmask": 15, "defEqEnv": 1}}}, 1)...)
				us = append(us, specUnits("H_envmono", []string{"[OPTIONS] X [OPTIONS]", "[-ae] X [-ae]"}, []profile{{"core template K<=3 Lp<=1, env subsets of {VA,VE}", map[string]interface{}{"profile": "tmplmini", "K": 3, "Lp": 1, "envmask": 9}}}, 1)...)
				us = append(us, specUnits("H_envmono", []string{"[OPTIONS]", "[OPTIONS] X", "-ae", "-a -o -e X", "-a -b -o -e", "-a -o -- X"}, []profile{{"tmpl K<=2 Lp<=1, all 16 env subsets", map[string]interface{}{"profile": "tmpl", "K": 2, "Lp": 1, "envmask": 15}}}, 1)...)
				return append(us, requiredEnvUnits(1, 1)...)
			}
			// (sized by measurement: wider plans did not fit in 16 min; the thorough tier is the quick plan on
			// twice as many specs, raw tokens of 3 bytes on the core specs and 2-byte environment values)
			us := specUnits("H_envmono", append(core, append(everyNth(specs, 3, c.seed), everyNth(cur, 20, c.seed)...)...), []profile{{"tmpl K<=2 Lp<=1, env subsets of {VA,VE}", map[string]interface{}{"profile": "tmpl", "K": 2, "Lp": 1, "envmask": 9}}}, 1)
			us = append(us, specUnits("H_envmono", core[:4], []profile{{"raw K<=2 L<=3, env subsets of {VA,VE}", map[string]interface{}{"profile": "raw", "K": 2, "L": 3, "envmask": 9}}}, 1)...)
			us = append(us, specUnits("H_envmono", []string{"-e X", "-a -e", "[OPTIONS] X [OPTIONS]", "-o [-a]"}, []profile{{"raw K<=2 L<=2, declared defaults equal to the environment values", map[string]interface{}{"profile": "raw", "K": 2, "L": 2, "envmask": 15, "defEqEnv": 1}}}, 1)...)
			us = append(us, specUnits("H_envmono", []string{"[OPTIONS] X [OPTIONS]", "[-ae] X [-ae]"}, []profile{{"core template K<=3 Lp<=1, env subsets of {VA,VE}", map[string]interface{}{"profile": "tmplmini", "K": 3, "Lp": 1, "envmask": 9}}}, 1)...)
			us = append(us, specUnits("H_envmono", []string{"[OPTIONS]", "[OPTIONS] X", "-ae", "-a -o -e X", "-a -b -o -e", "-a -o -- X"}, []profile{{"tmpl K<=2 Lp<=1, all 16 env subsets", map[string]interface{}{"profile": "tmpl", "K": 2, "Lp": 1, "envmask": 15}}}, 1)...)
			return append(us, requiredEnvUnits(2, 1)...)
		},
		Bounds: func(c *checkCtx) map[string]interface{} {
			return map[string]interface{}{"env": map[bool]string{true: "every subset of {VA,VE} (all 16 subsets of {VA,VB,VO,VE} on the three option-group specs)", false: "every subset of {VA,VE} (all 16 subsets of {VA,VB,VO,VE} on 6 option-group / multi-option specs)"}[c.quick()] + " set to a fixed valid value (symbolic bits)", "argv": "template K<=2 items over 24 shapes" + map[bool]string{true: "", false: "; raw K<=2 L<=3 on 4 core specs"}[c.quick()],
				"specs": "env-heavy shapes + curated + END family (a rotated subset: quick every 6th / 40th, thorough every 3rd / 20th)"}
		},
		Assumptions: append([]string{"value-identity clause only for specs without `--`", "differential clause (acceptance with env == reference with env fallback) only for specs without option groups"}, commonAssumptions...),
		Outside:     []string{"longer command lines", "invalid environment values (C06)"},
	})

	// ---- trees
	treeUnits := func(entry string, trees []int, k, l int, samples int) []*interp.Unit {
		var us []*interp.Unit
		for _, t := range trees {
			u := unit(cli, entry, fmt.Sprintf("%s[tree %d, K<=%d L<=%d]", entry, t, k, l), map[string]interface{}{"tree": t, "K": k, "L": l, "env": 0, "subpol": 0, "named": 0})
			u.Samples = samples
			us = append(us, u)
			if t == 1 || t == 2 || t == 4 {
				// the same with every level's flag backed by an environment variable (set or unset)
				ue := unit(cli, entry, fmt.Sprintf("%s[tree %d, K<=%d L<=%d, env-backed flags]", entry, t, k, l), map[string]interface{}{"tree": t, "K": k, "L": l, "env": 1, "subpol": 0, "named": 0})
				ue.Samples = samples
				us = append(us, ue)
			}
		}
		return us
	}
	// deep trees with longer command lines over a small alphabet (aliases, the flag, a positional, `--`, an undeclared option)
	namedTreeUnits := func(entry string, trees []int, k int) []*interp.Unit {
		var us []*interp.Unit
		for _, t := range trees {
			u := unit(cli, entry, fmt.Sprintf("%s[tree %d, K<=%d tokens from {aliases, -f, --ff, x, --, -z}]", entry, t, k), map[string]interface{}{"tree": t, "K": k, "L": 1, "env": 0, "subpol": 0, "named": 1})
			u.Samples = 2
			us = append(us, u)
		}
		return us
	}
	allTrees := []int{0, 1, 2, 3, 4, 5, 7, 8, 10}
	helpTrees := []int{1, 3, 4, 5, 6, 8, 11}
	precUnits := func(c *checkCtx, check string) []*interp.Unit {
		var us []*interp.Unit
		for t := 0; t < 7; t++ {
			for opt := 1; opt >= 0; opt-- {
				envLen, cliLen, maxEnv := 2, 2, 1
				if !c.quick() {
					envLen, cliLen, maxEnv = 3, 3, 2
					if t >= 4 {
						// lists: one variable of <=3 bytes (two variables x 3 bytes take > 6 min per unit)
						envLen = 3
						maxEnv = 1
						cliLen = 2
					}
				}
				role := map[int]string{1: "opt", 0: "arg"}[opt]
				tn := []string{"bool", "string", "int", "float64", "strings", "ints", "floats64"}[t]
				u := unit(cli, "H_prec", fmt.Sprintf("H_prec[%s %s env<=%dB x%d cli<=%dB]", tn, role, envLen, maxEnv, cliLen),
					map[string]interface{}{"type": t, "opt": opt, "check": check, "envLen": envLen, "cliLen": cliLen, "maxEnv": maxEnv, "withArg": 0, "ptr": 0, "sibling": 0, "specEnd": 0})
				u.Samples = 4
				us = append(us, u)
				// the XxxPtr flavour of the declaration functions, and a sibling sharing the default data
				up := unit(cli, "H_prec", fmt.Sprintf("H_prec[%s %s Ptr API, sibling with the same default, env<=1B cli<=1B]", tn, role),
					map[string]interface{}{"type": t, "opt": opt, "check": check, "envLen": 1, "cliLen": 1, "maxEnv": 1, "withArg": 0, "ptr": 1, "sibling": 1, "specEnd": 0})
				up.Samples = 2
				us = append(us, up)
				if opt == 1 && (t == 4 || t == 5 || t == 1) {
					// the occurrences matched through an option group ([OPTIONS])
					ug := unit(cli, "H_prec", fmt.Sprintf("H_prec[%s opt through [OPTIONS], cli<=%dB]", tn, cliLen),
						map[string]interface{}{"type": t, "opt": 1, "check": check, "envLen": 1, "cliLen": cliLen, "maxEnv": 1, "withArg": 0, "ptr": 0, "sibling": 0, "specEnd": 2})
					ug.Samples = 2
					us = append(us, ug)
				}
				if opt == 0 && (t == 1 || t == 4) {
					// a spec-level `--` before the argument: a `--` written on the command line after the first one is a value
					ue := unit(cli, "H_prec", fmt.Sprintf("H_prec[%s arg after a spec-level --, cli<=2B]", tn),
						map[string]interface{}{"type": t, "opt": 0, "check": check, "envLen": 1, "cliLen": 2, "maxEnv": 1, "withArg": 0, "ptr": 0, "sibling": 0, "specEnd": 1})
					ue.Samples = 2
					us = append(us, ue)
				}
				if check == "C06" || check == "C13" {
					// the short declaration functions XxxOpt(name, value, desc) / XxxOptPtr(&v, ...): no
					// environment, no SetByUser; command line else default
					for api := 2; api <= 3; api++ {
						us2 := unit(cli, "H_prec", fmt.Sprintf("H_prec[%s %s short API%s, cli<=1B]", tn, role, map[int]string{2: "", 3: " Ptr"}[api]),
							map[string]interface{}{"type": t, "opt": opt, "check": check, "envLen": 1, "cliLen": 1, "maxEnv": 0, "withArg": 0, "ptr": api, "sibling": api - 2, "specEnd": 0})
						us2.Samples = 1
						us = append(us, us2)
					}
				}
				if opt == 1 && (t == 2 || t == 5 || t == 0) {
					u2 := unit(cli, "H_prec", fmt.Sprintf("H_prec[%s opt + positional, cli<=%dB]", tn, cliLen),
						map[string]interface{}{"type": t, "opt": opt, "check": check, "envLen": 1, "cliLen": cliLen, "maxEnv": 0, "withArg": 1, "ptr": 0, "sibling": 0, "specEnd": 0})
					u2.Samples = 2
					us = append(us, u2)
				}
			}
		}
		return us
	}
	precBounds := func(c *checkCtx) map[string]interface{} {
		return map[string]interface{}{"instances": "7 built-in types x {option, argument} x {struct API, Ptr struct API; for C06/C13 also the short XxxOpt/XxxArg functions and their Ptr flavours: all 56 declaration functions}", "default": "symbolic (strings <=2 bytes, ints 64-bit, bools; floats concrete); lists of 0-2 elements",
			"environment": map[bool]string{true: "0-1 listed variable, value <=2 ASCII bytes", false: "0-2 listed variables (0-1 for list types), value <=3 ASCII bytes"}[c.quick()], "command line": "the value 0, 1 or 2 times, payload of 0-" + map[bool]string{true: "2", false: "3 (2 for list types)"}[c.quick()] + " arbitrary bytes"}
	}
	precAssume := append([]string{"strconv.ParseBool/ParseInt/ParseFloat are uninterpreted functions shared by implementation and oracle; models and counterexamples are made consistent with the real strconv by lazily added ground facts and a corpus of edge-case tokens", "environment values are ASCII without NUL"}, commonAssumptions...)
	reg(&propDef{
		ID: "C04", Level: "model_checking",
		Units: func(c *checkCtx) []*interp.Unit {
			if c.quick() {
				us := append(treeUnits("H_route", allTrees, 3, 2, 4), treeUnits("H_route", []int{0, 1, 7, 9}, 2, 3, 4)...)
				return append(us, namedTreeUnits("H_route", []int{1, 4}, 4)...)
			}
			us := append(treeUnits("H_route", allTrees, 6, 2, 4), treeUnits("H_route", allTrees, 4, 3, 4)...)
			return append(us, namedTreeUnits("H_route", []int{1, 4, 8, 10}, 5)...)
		},
		Bounds: func(c *checkCtx) map[string]interface{} {
			return map[string]interface{}{"named": "deep trees (1, 4; thorough also 8, 10) with K<=4/5 tokens drawn from {every alias, -f, --ff, x, --, -z}: the deepest commands get arguments of their own", "trees": "11 command trees (depth<=4, fan-out<=2, 1-3 aliases incl. prefixes of each other, option-like aliases, a name containing a comma, levels with/without parameters, blank specs, own -h options, action-less commands, version flag)",
				"argv": map[bool]string{true: "raw K<=3 tokens of L<=2 bytes", false: "raw K<=6 L<=2 and K<=4 L<=3"}[c.quick()]}
		},
		Assumptions: append([]string{"no help token (C14), no version token; oracle: reference router whose per-level verdicts and bindings come from the real single-level application of that level"}, commonAssumptions...),
		Outside:     []string{"other trees", "longer command lines"},
	})
	reg(&propDef{
		ID: "C07", Level: "model_checking",
		Units: func(c *checkCtx) []*interp.Unit {
			conv := precUnits(c, "C07")
			for _, t := range []int{1, 2, 4} {
				u := unit(cli, "H_policy", fmt.Sprintf("H_policy[tree %d, K<=3 L<=2, sub-commands configured with ContinueOnError]", t), map[string]interface{}{"tree": t, "K": 3, "L": 2, "env": 0, "subpol": 1, "named": 0})
				u.Samples = 3
				conv = append(conv, u)
				ul := unit(cli, "H_policy", fmt.Sprintf("H_policy[tree %d, K<=3 L<=2, root policy assigned after the sub-commands were declared]", t), map[string]interface{}{"tree": t, "K": 3, "L": 2, "env": 0, "subpol": 2, "named": 0})
				ul.Samples = 2
				conv = append(conv, ul)
			}
			// which invocations are rejected is decided by the reference matcher (C01) on a flat application
			for _, sp := range []string{"[-a] X", "X", "[-o] X [Y]"} {
				ua := unit(cli, "H_accept", fmt.Sprintf("H_accept[%q raw K<=2 L<=3] (verdict = reference matcher)", sp), map[string]interface{}{"spec": sp, "check": "C01", "shared": 0, "profile": "raw", "K": 2, "L": 3})
				ua.Samples = 1
				conv = append(conv, ua)
			}
			if c.quick() {
				conv = append(conv, namedTreeUnits("H_policy", []int{4}, 4)...)
				return append(append(treeUnits("H_policy", allTrees, 3, 2, 4), treeUnits("H_policy", []int{0, 1}, 2, 3, 4)...), conv...)
			}
			conv = append(conv, namedTreeUnits("H_policy", []int{1, 4, 8}, 5)...)
			return append(append(treeUnits("H_policy", allTrees, 5, 2, 4), treeUnits("H_policy", allTrees, 4, 3, 4)...), conv...)
		},
		Bounds:      func(c *checkCtx) map[string]interface{} { return props["C04"].Bounds(c) },
		Assumptions: append([]string{"the three policies are three runs of the real code on the same symbolic argv; which command rejects comes from the reference router; addressed commands without Action are excluded; conversion errors through IntOpt -n on tree 0 (strconv uninterpreted, ground-truthed)"}, commonAssumptions...),
		Outside:     []string{"other trees", "longer command lines", "byte-exact rendering of the help text (C17)"},
	})
	reg(&propDef{
		ID: "C14", Level: "model_checking",
		Units: func(c *checkCtx) []*interp.Unit {
			if c.quick() {
				return treeUnits("H_help", helpTrees, 3, 1, 4)
			}
			// (K<=5 on every tree did not finish in 40 min once the trees had grown to 11)
			us := append(treeUnits("H_help", append(allTrees, 6, 11), 4, 1, 4), treeUnits("H_help", []int{1, 5, 6}, 3, 2, 4)...)
			return append(us, treeUnits("H_help", []int{3, 4}, 5, 1, 4)...)
		},
		Bounds: func(c *checkCtx) map[string]interface{} {
			return map[string]interface{}{"argv": map[bool]string{true: "K<=3", false: "K<=4 on every tree, K<=5 on trees 3 and 4 (and K<=3 with 2-byte raw tokens)"}[c.quick()] + " tokens from {-h, --help, --, -v, --version, -f, every alias of the tree, raw bytes}", "policies": "all three (case split)"}
		},
		Assumptions: append([]string{"oracle: the statement transcribed (first help token that no `--` precedes addresses the command reached by the sub-command names before it) cross-checked against the reference router; the unclaimed case (ancestor's own arguments contain `--`) is assumed away"}, commonAssumptions...),
		Outside:     []string{"other trees", "longer command lines", "byte-exact rendering of the help text"},
	})
	reg(&propDef{
		ID: "C05", Level: "model_checking",
		Units: func(c *checkCtx) []*interp.Unit {
			ds := []int{0, 1, 2}
			if !c.quick() {
				ds = []int{0, 1, 2, 3, 4}
			}
			var us []*interp.Unit
			for _, d := range ds {
				u := unit(cli, "H_flow", fmt.Sprintf("H_flow[d=%d]", d), map[string]interface{}{"d": d})
				us = append(us, u)
			}
			return us
		},
		Bounds: func(c *checkCtx) map[string]interface{} {
			return map[string]interface{}{"depth": map[bool]string{true: "d<=2 (7 hooks)", false: "d<=4 (11 hooks, 4.2M kind vectors)"}[c.quick()], "hooks": "each of the 2d+3 hooks is absent / returns / panics(v) / calls Exit(n): all combinations (case split); n is symbolic (64-bit); v is a symbolic integer, an error value, a string with a symbolic byte or a genuine runtime error raised by the hook (d>=2: symbolic integers only); d<=1: under the three error policies"}
		},
		Assumptions: append([]string{"the process-exit function is replaced by a recording stub that does not return (os.Exit never returns)", "oracle: 20-line chain reference (DESIGN D.3)"}, commonAssumptions...),
		Outside:     []string{"panic(nil)", "hooks calling os.Exit directly", "deeper paths"},
	})
	reg(&propDef{ID: "C06", Level: "model_checking", Units: func(c *checkCtx) []*interp.Unit { return precUnits(c, "C06") }, Bounds: precBounds, Assumptions: precAssume,
		Outside: []string{"longer environment values / more variables", "custom types (C19)"}})
	reg(&propDef{ID: "C15", Level: "model_checking", Units: func(c *checkCtx) []*interp.Unit {
		us := precUnits(c, "C15")
		// sub-commands: one SetByUser variable shared by the -f of every level of a tree
		us = append(us, treeUnits("H_route", []int{1, 2}, pick(c, 3, 4), 2, 2)...)
		// several parameters at once: the SetByUser flags with environment values set equal those without
		us = append(us, specUnits("H_envmono", []string{"[OPTIONS] X [OPTIONS]", "[-ae] X [-ae]"},
			[]profile{{"core template K<=3, env subsets of {VA,VE}", map[string]interface{}{"profile": "tmplmini", "K": 3, "Lp": 1, "envmask": 9}}}, 1)...)
		return append(us, specUnits("H_envmono", []string{"[-a] (X Y | X)", "[-e] (X Y) | X", "[OPTIONS] X...", "[-a] [-o] X [Y]", "[X] Y", "[X...] Y", "[-a] [X] [-o] Y"},
			[]profile{{"raw K<=2 L<=2, env subsets", map[string]interface{}{"profile": "raw", "K": 2, "L": 2, "envmask": 15}}}, 1)...)
	}, Bounds: precBounds, Assumptions: precAssume,
		Outside: []string{"custom types (C19 checks SetByUser for them too)"}})
	val := groups["values"]
	reg(&propDef{
		ID: "C13", Level: "model_checking",
		Units: func(c *checkCtx) []*interp.Unit {
			var us []*interp.Unit
			for t := 0; t < 7; t++ {
				tn := []string{"bool", "string", "int", "float64", "strings", "ints", "floats64"}[t]
				us = append(us, unit(val, "H_set", fmt.Sprintf("H_set[%s L<=20]", tn), map[string]interface{}{"type": t, "L": 20}))
			}
			return append(us, precUnits(c, "C13")...)
		},
		Bounds: func(c *checkCtx) map[string]interface{} {
			b := precBounds(c)
			b["H_set"] = "every Set method on tokens of <=20 arbitrary bytes"
			return b
		},
		Assumptions: precAssume,
		Outside:     []string{"the arithmetic of strconv itself (it is the oracle)", "tokens longer than 20 bytes (the glue code does not inspect the bytes)"},
	})
	reg(&propDef{
		ID: "C16", Level: "model_checking",
		Units: func(c *checkCtx) []*interp.Unit {
			var us []*interp.Unit
			for nopt := 0; nopt <= 2; nopt++ {
				for narg := 0; narg <= 2; narg++ {
					for swap := 0; swap <= 1; swap++ {
						if swap == 1 && nopt != 1 && narg != 1 {
							continue
						}
						profs := []profile{{"tmpl K<=2 Lp<=1", map[string]interface{}{"profile": "tmpl", "K": 2, "Lp": 1}}, {"raw K<=2 L<=2", map[string]interface{}{"profile": "raw", "K": 2, "L": 2}}}
						if !c.quick() {
							// (the full template with K<=3 items did not finish in 18 min: core template for K<=3)
							profs = []profile{{"tmpl K<=2 Lp<=2", map[string]interface{}{"profile": "tmpl", "K": 2, "Lp": 2}}, {"core template K<=3 Lp<=1", map[string]interface{}{"profile": "tmplmini", "K": 3, "Lp": 1}}, {"raw K<=2 L<=3", map[string]interface{}{"profile": "raw", "K": 2, "L": 3}}}
						}
						for _, pr := range profs {
							ps := map[string]interface{}{"nopt": nopt, "narg": narg, "swap": swap, "env": 0, "argsFirst": 0, "withSub": 0}
							for k, v := range pr.params {
								ps[k] = v
							}
							u := unit(cli, "H_defspec", fmt.Sprintf("H_defspec[%d opts %d args v%d %s]", nopt, narg, swap, pr.name), ps)
							u.Samples = 2
							us = append(us, u)
						}
						if swap == 0 {
							// the same command with a sub-command (usage line shows COMMAND [arg...])
							pss := map[string]interface{}{"nopt": nopt, "narg": narg, "swap": swap, "env": 0, "argsFirst": 0, "withSub": 1, "profile": "raw", "K": 2, "L": 1}
							usb := unit(cli, "H_defspec", fmt.Sprintf("H_defspec[%d opts %d args with a sub-command, raw K<=2 L<=1]", nopt, narg), pss)
							usb.Samples = 2
							us = append(us, usb)
						}
						if narg > 0 && (swap == 0 || !c.quick()) {
							// the same with every option and argument backed by an environment variable (symbolic subset set)
							if nopt > 0 {
								// arguments declared before the options
								psf := map[string]interface{}{"nopt": nopt, "narg": narg, "swap": swap, "env": 0, "argsFirst": 1, "withSub": 0, "profile": "raw", "K": 2, "L": 2}
								uf := unit(cli, "H_defspec", fmt.Sprintf("H_defspec[%d opts %d args v%d arguments declared first, raw K<=2 L<=2]", nopt, narg, swap), psf)
								uf.Samples = 2
								us = append(us, uf)
							}
							ps := map[string]interface{}{"nopt": nopt, "narg": narg, "swap": swap, "env": 1, "argsFirst": 0, "withSub": 0, "profile": "raw", "K": 2, "L": 1}
							u := unit(cli, "H_defspec", fmt.Sprintf("H_defspec[%d opts %d args v%d env subsets, raw K<=2 L<=1]", nopt, narg, swap), ps)
							u.Samples = 2
							us = append(us, u)
						}
					}
				}
			}
			for pair := 0; pair < 6; pair++ {
				for withopt := 0; withopt <= 3; withopt++ {
					if withopt >= 2 && pair != 0 && pair != 3 {
						continue // the option declared with HideValue: two name pairs
					}
					ps := map[string]interface{}{"pair": pair, "withopt": withopt, "profile": "raw", "K": 3, "L": 1}
					u := unit(cli, "H_defspec_names", fmt.Sprintf("H_defspec_names[pair %d opt %d raw K<=3 L<=1]", pair, withopt), ps)
					u.Samples = 2
					us = append(us, u)
				}
			}
			return us
		},
		Bounds: func(c *checkCtx) map[string]interface{} {
			return map[string]interface{}{"declarations": "0-2 options from {flag -a/--aa, valued -o/--oo}, 0-2 arguments from {X, Y}: 15 sets, also with every parameter backed by an environment variable (symbolic subset set); 6 pairs of argument names containing one another or contained in `[OPTIONS]`", "argv": map[bool]string{true: "template K<=2, raw K<=2 L<=2", false: "template K<=2 (payload <=2 bytes), core template K<=3, raw K<=2 L<=3"}[c.quick()],
				"sub-commands": "spec-less sub-commands are exercised by trees 1 and 4 of C04/C07/C14 (usage line oracle assumes C16)"}
		},
		Assumptions: commonAssumptions,
		Outside:     []string{"more declarations", "longer command lines"},
	})
	reg(&propDef{
		ID: "C17", Level: "model_checking",
		Units: func(c *checkCtx) []*interp.Unit {
			cfgs := [][]int{{0, 0, 0, 0, 0}, {1, 1, 1, 0, 0}, {2, 2, 2, 0, 1}, {1, 3, 0, 1, 3}, {0, 1, 3, 0, 2}, {3, 0, 1, 1, 0}}
			if !c.quick() {
				cfgs = append(cfgs, []int{2, 3, 3, 0, 0}, []int{2, 3, 3, 1, 1}, []int{1, 2, 3, 1, 2}, []int{2, 3, 2, 0, 3}, []int{0, 3, 1, 1, 0}, []int{1, 1, 2, 0, 2})
			}
			var us []*interp.Unit
			for _, g := range cfgs {
				u := unit(cli, "H_helptext", fmt.Sprintf("H_helptext[%d args %d opts %d kids depth %d first %d]", g[0], g[1], g[2], g[3], g[4]),
					map[string]interface{}{"nargs": g[0], "nopts": g[1], "nkids": g[2], "depth": g[3], "firstopt": g[4], "wordLen": 1, "custom": 0, "version": 0})
				u.Samples = 4
				us = append(us, u)
			}
			// user-defined value types (VarOpt / VarArg): every shape of {IsBoolFlag, IsDefault}, four default texts
			cust := [][]int{{0, 0, 0, 0, 0}}
			if !c.quick() {
				cust = append(cust, []int{0, 0, 1, 1, 0})
			}
			for _, g := range cust {
				u := unit(cli, "H_helptext", fmt.Sprintf("H_helptext[%d args %d opts %d kids depth %d first %d + custom VarOpt and VarArg]", g[0], g[1], g[2], g[3], g[4]),
					map[string]interface{}{"nargs": g[0], "nopts": g[1], "nkids": g[2], "depth": g[3], "firstopt": g[4], "wordLen": 1, "custom": 1, "version": 1})
				u.Samples = 4
				us = append(us, u)
			}
			return us
		},
		Bounds: func(c *checkCtx) map[string]interface{} {
			return map[string]interface{}{"declarations": "0-2 arguments, 0-3 options (6 name-list shapes: short only, long only, short+long, two shorts, two longs, long+two shorts; bool/int/ints defaults), 0-3 sub-commands (1-3 aliases, Hidden symbolic), LongDesc presence, PrintHelp/PrintLongHelp, root or sub-command",
				"descriptions": "symbolic lower-case words (1 byte), optionally two lines; env lists of 0-3 names incl. irregular separators; HideValue; defaults with `%` and blank-only defaults; empty short description; user-defined values (6 shapes of IsBoolFlag/IsDefault and its answer x 4 default texts); every help is printed twice and must not change"}
		},
		Assumptions: append([]string{"compared after whitespace normalisation (runs of blanks collapsed, lines trimmed, empty lines dropped): text/tabwriter is a pass-through in the engine and the real one in the native twin; byte rendering by fmt and tabwriter is trusted"}, commonAssumptions...),
		Outside:     []string{"descriptions containing blanks other than the modelled line break", "column alignment"},
	})
	reg(&propDef{
		ID: "C18", Level: "model_checking",
		Units: func(c *checkCtx) []*interp.Unit {
			type pc struct {
				pat            string
				optLen, argLen int
			}
			pcs := []pc{{"oo", 3, 1}, {"aa", 1, 2}, {"oa", 2, 2}, {"ao", 2, 2}, {"ov", 2, 1}, {"vo", 2, 1}}
			if !c.quick() {
				// (names of 4 bytes in two declarations took 31 min: 3 bytes, and triples of shorter names)
				pcs = []pc{{"oo", 3, 1}, {"aa", 1, 3}, {"oa", 2, 2}, {"ao", 2, 2}, {"ooo", 2, 1}, {"aaa", 1, 1}, {"oao", 2, 1}, {"ov", 2, 1}, {"vo", 2, 1}, {"ovo", 1, 1}}
			}
			var us []*interp.Unit
			for _, x := range pcs {
				us = append(us, unit(cli, "H_decl", fmt.Sprintf("H_decl[%s optLen<=%d argLen<=%d]", x.pat, x.optLen, x.argLen),
					map[string]interface{}{"pattern": x.pat, "ndecl": len(x.pat), "optLen": x.optLen, "argLen": x.argLen, "policy": 1, "names": 0}))
			}
			us = append(us, unit(cli, "H_decl", "H_decl[oo, option names outside ASCII (6 concrete name lists)]", map[string]interface{}{"pattern": "oo", "ndecl": 2, "optLen": 1, "argLen": 1, "policy": 1, "names": 1}))
			us = append(us, unit(cli, "H_decl", "H_decl[aa argLen<=2, XxxArgPtr with one destination variable]", map[string]interface{}{"pattern": "aa", "ndecl": 2, "optLen": 1, "argLen": 2, "policy": 1, "names": 2}))
			// the same under the two other error policies (declarations fail fast whatever the policy)
			for _, pol := range []int{0, 2} {
				for _, x := range []pc{{"oo", 2, 1}, {"aa", 1, 1}, {"oa", 1, 1}} {
					us = append(us, unit(cli, "H_decl", fmt.Sprintf("H_decl[%s optLen<=%d argLen<=%d, %s]", x.pat, x.optLen, x.argLen, map[int]string{0: "ContinueOnError", 2: "PanicOnError"}[pol]),
						map[string]interface{}{"pattern": x.pat, "ndecl": len(x.pat), "optLen": x.optLen, "argLen": x.argLen, "policy": pol, "names": 0}))
				}
			}
			return us
		},
		Bounds: func(c *checkCtx) map[string]interface{} {
			return map[string]interface{}{"sequences": map[bool]string{true: "2 declarations (option/option, argument/argument, mixed)", false: "2-3 declarations"}[c.quick()], "names": "raw ASCII bytes: option name lists " + map[bool]string{true: "<=3", false: "<=3 (<=2 in triples)"}[c.quick()] + " bytes (blanks split them into several names), argument names <=2-3 bytes without blanks"}
		},
		Assumptions: commonAssumptions,
		Outside:     []string{"non-ASCII names", "argument names containing blanks (C08)", "longer names"},
	})
	reg(&propDef{
		ID: "C19", Level: "model_checking",
		Units: func(c *checkCtx) []*interp.Unit {
			var us []*interp.Unit
			for combo := 0; combo < 8; combo++ {
				for opt := 1; opt >= 0; opt-- {
					lp, el := 1, 2
					if !c.quick() {
						lp, el = 2, 3
					}
					for fa := 1; fa >= 0; fa-- {
						if fa == 0 && combo < 4 {
							continue // no IsBoolFlag method: nothing to answer
						}
						ulp := lp
						if opt == 0 {
							ulp = 2 // positional payloads of 2 bytes: a further `--` after the first one is a value
						}
						u := unit(cli, "H_custom", fmt.Sprintf("H_custom[combo %03b %s IsBoolFlag()=%v Lp<=%d env<=%d]", combo, map[int]string{1: "opt", 0: "arg"}[opt], fa == 1, ulp, el),
							map[string]interface{}{"combo": combo, "opt": opt, "Lp": ulp, "envLen": el, "flagAnswer": fa, "withArg": 0, "group": 0, "fold": 0, "short": 0})
						u.Samples = 3
						us = append(us, u)
						if fa == 1 && (combo == 0 || combo == 6) {
							us3 := unit(cli, "H_custom", fmt.Sprintf("H_custom[combo %03b %s short API Lp<=%d]", combo, map[int]string{1: "opt", 0: "arg"}[opt], ulp),
								map[string]interface{}{"combo": combo, "opt": opt, "Lp": ulp, "envLen": 0, "flagAnswer": fa, "withArg": 0, "group": 0, "fold": 0, "short": 1})
							us3.Samples = 2
							us = append(us, us3)
						}
						if opt == 1 && fa == 1 && combo >= 4 {
							uf := unit(cli, "H_custom", fmt.Sprintf("H_custom[combo %03b flag folded in front of a valued option -xo<value>, Lp<=%d]", combo, lp),
								map[string]interface{}{"combo": combo, "opt": opt, "Lp": lp, "envLen": 1, "flagAnswer": fa, "withArg": 0, "group": 0, "fold": 1, "short": 0})
							uf.Samples = 2
							us = append(us, uf)
						}
						if opt == 1 && fa == 1 {
							ug := unit(cli, "H_custom", fmt.Sprintf("H_custom[combo %03b opt through an option group Lp<=%d env<=%d]", combo, lp, el),
								map[string]interface{}{"combo": combo, "opt": opt, "Lp": lp, "envLen": el, "flagAnswer": fa, "withArg": 0, "group": 1, "fold": 0, "short": 0})
							ug.Samples = 2
							us = append(us, ug)
						}
						if opt == 1 && fa == 1 && (combo == 0 || combo == 2) {
							u2 := unit(cli, "H_custom", fmt.Sprintf("H_custom[combo %03b opt + positional Lp<=%d]", combo, lp),
								map[string]interface{}{"combo": combo, "opt": opt, "Lp": lp, "envLen": 1, "flagAnswer": fa, "withArg": 1, "group": 0, "fold": 0, "short": 0})
							u2.Samples = 2
							us = append(us, u2)
						}
					}
				}
			}
			return us
		},
		Bounds: func(c *checkCtx) map[string]interface{} {
			return map[string]interface{}{"types": "8 recorder types (IsBoolFlag x Clear x IsDefault; types with IsBoolFlag answering true and answering false) as option and as argument", "inputs": "0-2 command-line values (flag-like options also bare, and folded in front of a valued option whose attached value is symbolic), symbolic payloads (positional ones of 2 bytes, so that a second `--` is a value), symbolic poison token on which Set fails, symbolic environment value"}
		},
		Assumptions: append([]string{"environment values are ASCII without NUL"}, commonAssumptions...),
		Outside:     []string{"more than 2 values", "several environment variables"},
	})
	reg(&propDef{
		ID: "C20", Level: "other",
		Explanation: "Decided by symbolic execution of the real code with an SMT solver, sequentially: (1) footprint - on every explored path the engine records every store and load the library performs on package-level variables: no store, loads only of stdOut/stdErr/exiter and the two sentinel errors; (2) non-interference - an application's outcome is unchanged when another application (independent symbolic inputs) runs before it; (3) determinism - rebuilding and rerunning gives the same outcome under every map iteration order the engine explores. Interleavings of goroutines are NOT explored (a sequential symbolic executor cannot); race freedom for concurrently built-and-run applications follows from (1) by argument: applications share no written location.",
		Units: func(c *checkCtx) []*interp.Unit {
			var us []*interp.Unit
			n := 6
			for a := 0; a < n; a++ {
				if c.quick() && a%2 == 1 && a != 1 {
					continue
				}
				ps := func(mode string, k, l int) map[string]interface{} {
					return map[string]interface{}{"specA": a, "specB": (a + 1) % n, "mode": mode, "profile": "raw", "K": k, "L": l, "names": 0}
				}
				us = append(us, unit(cli, "H_indep", fmt.Sprintf("H_indep[footprint spec %d raw K<=2 L<=2]", a), ps("footprint", 2, 2)))
				us = append(us, unit(cli, "H_indep", fmt.Sprintf("H_indep[determinism spec %d raw K<=2 L<=2]", a), ps("determinism", 2, 2)))
				pt := ps("determinism", 3, 1)
				pt["profile"], pt["Lp"] = "tmplmini", 1
				us = append(us, unit(cli, "H_indep", fmt.Sprintf("H_indep[determinism spec %d core template K<=3]", a), pt))
				us = append(us, unit(cli, "H_indep", fmt.Sprintf("H_indep[interfere spec %d/%d raw K<=1 L<=2]", a, (a+1)%n), ps("interfere", 1, 2)))
				us = append(us, unit(cli, "H_indep", fmt.Sprintf("H_indep[envtime spec %d raw K<=1 L<=2]", a), ps("envtime", 1, 2)))
				if a == 0 {
					us = append(us, unit(cli, "H_indep", "H_indep[option and argument bound to one variable, every map order]", ps("sharedvar", 0, 1)))
				}
				if a == 1 {
					// long option names that share a prefix: a token is an option only when it spells a name exactly, whatever the map order
					pn := ps("determinism", 1, 3)
					pn["names"], pn["specA"] = 2, 6
					us = append(us, unit(cli, "H_indep", "H_indep[determinism spec `[OPTIONS] [X]`, long names xa/xab/xo/xe, raw K<=1 L<=3]", pn))
				}
			}
			for _, u := range us {
				u.Samples = 2
			}
			return us
		},
		Bounds: func(c *checkCtx) map[string]interface{} {
			return map[string]interface{}{"specs": "6 specs over the table, every subset of options env-backed", "argv": "raw K<=2 L<=2 (interference: K<=1 for A, K<=2 for B)", "map orders": "all permutations up to 3 entries, rotations and reversal above"}
		},
		Assumptions: append([]string{"race freedom is an argument from the disjoint-footprint result, not an exploration of schedules", "the harness itself redirects stdErr/stdOut/exiter before the measured region"}, commonAssumptions...),
		Outside:     []string{"goroutine interleavings", "longer inputs"},
	})
}

func containsEnd(s string) bool {
	for i := 0; i+1 < len(s); i++ {
		if s[i] == '-' && s[i+1] == '-' && (i+2 == len(s) || s[i+2] == ' ' || s[i+2] == '\t') {
			return true
		}
	}
	return false
}

func hasOption(s string) bool {
	for i := 0; i+1 < len(s); i++ {
		if s[i] == '-' && s[i+1] != ' ' {
			return true
		}
		if s[i] == 'O' && s[i+1] == 'P' {
			return true
		}
	}
	return false
}

// requiredEnvUnits: a required, repeatable option of each built-in type (both
// declaration flavours) with up to two environment variables of symbolic content.
func requiredEnvUnits(envLen, cliLen int) []*interp.Unit {
	var us []*interp.Unit
	for ptr := 0; ptr <= 1; ptr++ {
		for t := 0; t < 7; t++ {
			tn := []string{"bool", "string", "int", "float64", "strings", "ints", "floats64"}[t]
			api := map[int]string{0: "struct API", 1: "Ptr API"}[ptr]
			u := unit(groups["cli"], "H_prec", fmt.Sprintf("H_prec[required %s option, %s, env<=%dB x2 cli<=%dB]", tn, api, envLen, cliLen),
				map[string]interface{}{"type": t, "opt": 1, "check": "C12", "envLen": envLen, "cliLen": cliLen, "maxEnv": 2, "withArg": 0, "ptr": ptr, "sibling": 0, "specEnd": 0})
			u.Samples = 2
			us = append(us, u)
		}
	}
	return us
}

// ddTreeUnits: C09's insertion clause on command trees.
func ddTreeUnits(trees []int, k, l int) []*interp.Unit {
	var us []*interp.Unit
	for _, t := range trees {
		u := unit(groups["cli"], "H_dd_tree", fmt.Sprintf("H_dd_tree[tree %d, K<=%d L<=%d]", t, k, l), map[string]interface{}{"tree": t, "K": k, "L": l, "env": 0, "subpol": 0, "named": 0})
		u.Samples = 2
		us = append(us, u)
	}
	return us
}
