package main

import (
	"fmt"

	"verif/engine/interp"
)

var props = map[string]*propDef{}

func reg(p *propDef) { props[p.ID] = p }

func unit(g *group, entry, name string, params map[string]interface{}) *interp.Unit {
	return &interp.Unit{Name: name, Harness: g.Name, PkgPath: g.PkgPath, Entry: entry, Params: params, Samples: 6}
}

func pick(c *checkCtx, quick, thorough int) int {
	if c.quick() {
		return quick
	}
	return thorough
}

var commonAssumptions = []string{
	"engine: gosym interprets go/ssa built from /repo's working tree on every run (no cache); trusted after native trace validation of sampled paths (traces_validated_against_impl) and native replay of every counterexample",
	"strings have a concrete length on every path (forked over 0..bound) and symbolic bytes; all formulas are QF_(UF)BV",
	"stdlib callees are intrinsics (strings.*, fmt.*, strconv.* as uninterpreted functions, os.Getenv as a harness-owned table, text/tabwriter as pass-through) or interpreted from their own SSA (sort, errors)",
	"solver: z3 (4.8.12) over pipes; unknown or error answers are reported as inconclusive, never as unsat",
}

// evalList runs a concrete list-producing function of the cli harness.
func evalList(c *checkCtx, fn string) []string {
	out, err := interp.EvalStrings(c.p, groups["cli"].PkgPath, fn)
	if err != nil {
		fatal("%v", err)
	}
	return out
}

// rotate selects every nth element starting at seed mod n.
func everyNth(xs []string, n int, seed int64) []string {
	if n <= 1 {
		return xs
	}
	var out []string
	off := int(((seed % int64(n)) + int64(n)) % int64(n))
	for i := off; i < len(xs); i += n {
		out = append(out, xs[i])
	}
	return out
}

type profile struct {
	name   string
	params map[string]interface{}
}

func acceptUnits(c *checkCtx, check string) []*interp.Unit {
	cli := groups["cli"]
	specs := append(evalList(c, "vFamilyCurated"), evalList(c, "vFamilyEnd")...)
	gen := evalList(c, "vFamilyGenerated")
	var profs []profile
	if c.quick() {
		specs = append(specs, everyNth(gen, 16, c.seed)...)
		profs = []profile{
			{"raw K<=2 L<=3", map[string]interface{}{"profile": "raw", "K": 2, "L": 3}},
			{"tmpl K<=2 Lp<=1", map[string]interface{}{"profile": "tmpl", "K": 2, "Lp": 1}},
		}
	} else {
		specs = append(specs, gen...)
		profs = []profile{
			{"raw K<=2 L<=4", map[string]interface{}{"profile": "raw", "K": 2, "L": 4}},
			{"tmpl K<=3 Lp<=1", map[string]interface{}{"profile": "tmpl", "K": 3, "Lp": 1}},
		}
	}
	var us []*interp.Unit
	for _, sp := range specs {
		for _, pr := range profs {
			ps := map[string]interface{}{"spec": sp, "check": check}
			for k, v := range pr.params {
				ps[k] = v
			}
			u := unit(cli, "H_accept", fmt.Sprintf("H_accept[%q %s]", sp, pr.name), ps)
			u.Samples = 1
			us = append(us, u)
		}
	}
	return us
}

func init() {
	reg(&propDef{
		ID: "C01", Level: "model_checking",
		Units: func(c *checkCtx) []*interp.Unit { return acceptUnits(c, "C01") },
		Bounds: func(c *checkCtx) map[string]interface{} {
			if c.quick() {
				return map[string]interface{}{"specs": "curated + END family + every 16th generated spec (rotated by VERIF_SEED)", "raw": "K<=2 tokens of L<=3 arbitrary bytes", "template": "K<=2 items over 20 documented/malformed shapes, payload <=1 byte"}
			}
			return map[string]interface{}{"specs": "curated + END family + all generated specs", "raw": "K<=2 tokens of L<=4 arbitrary bytes", "template": "K<=3 items over 20 documented/malformed shapes, payload <=1 byte"}
		},
		Assumptions: append([]string{"declaration table: flags -a/--aa -b/--bb, valued -o/--oo -e/--ee (string lists), arguments X Y; no environment variables", "no token equals -h/--help (C14); no folded token with '=' after a flag; inputs of DESIGN.md 4.5 (iv) excluded for specs containing `--`", "flag values written as -a=v convert through strconv.ParseBool modelled as an uninterpreted function shared by implementation and reference"}, commonAssumptions...),
		Outside:     []string{"command lines longer than K tokens / L bytes", "specs outside the family", "other declaration tables"},
	})
	reg(&propDef{
		ID: "C02", Level: "model_checking",
		Units: func(c *checkCtx) []*interp.Unit { return acceptUnits(c, "C02") },
		Bounds: func(c *checkCtx) map[string]interface{} { return props["C01"].Bounds(c) },
		Assumptions: props["C01"].Assumptions,
		Outside:     props["C01"].Outside,
	})
	lex := groups["lexer"]
	par := groups["parser"]
	cli := groups["cli"]
	specUnits := func(entry string, specs []string, profs []profile, samples int) []*interp.Unit {
		var us []*interp.Unit
		for _, sp := range specs {
			for _, pr := range profs {
				ps := map[string]interface{}{"spec": sp}
				for k, v := range pr.params {
					ps[k] = v
				}
				u := unit(cli, entry, fmt.Sprintf("%s[%q %s]", entry, sp, pr.name), ps)
				u.Samples = samples
				us = append(us, u)
			}
		}
		return us
	}
	endFree := func(specs []string) []string {
		var out []string
		for _, s := range specs {
			if !containsEnd(s) {
				out = append(out, s)
			}
		}
		return out
	}
	withOption := func(specs []string) []string {
		var out []string
		for _, s := range specs {
			if hasOption(s) {
				out = append(out, s)
			}
		}
		return out
	}

	reg(&propDef{
		ID: "C08", Level: "model_checking",
		Units: func(c *checkCtx) []*interp.Unit {
			ls, k, ld := pick(c, 4, 5), pick(c, 4, 5), pick(c, 4, 5)
			return []*interp.Unit{
				unit(lex, "H_lex_ref", fmt.Sprintf("H_lex_ref[Ls<=%d]", ls), map[string]interface{}{"Ls": ls}),
				unit(par, "H_parse_ref", fmt.Sprintf("H_parse_ref[k<=%d]", k), map[string]interface{}{"k": k}),
				unit(cli, "H_doinit_total", fmt.Sprintf("H_run_panics[Ls<=%d]", ld), map[string]interface{}{"Ls": ld}),
			}
		},
		Bounds: func(c *checkCtx) map[string]interface{} {
			return map[string]interface{}{"H_lex_ref": fmt.Sprintf("all byte strings of <= %d bytes (symbolic bytes, solver-decided classes)", pick(c, 4, 5)),
				"H_parse_ref": fmt.Sprintf("all sequences of <= %d tokens over 16 token kinds (declared and undeclared names); kinds are case splits enumerated by the engine", pick(c, 4, 5)),
				"H_run_panics": fmt.Sprintf("Run on all spec byte strings of 1..%d bytes over the table {-a/--aa, -o/--oo, X}", pick(c, 4, 5))}
		},
		Assumptions: commonAssumptions,
		Outside:     []string{"spec strings longer than the stated number of bytes / tokens", "declaration tables other than {a/aa flag, o/oo valued, X}"},
	})
	reg(&propDef{
		ID: "C03", Level: "model_checking",
		Units: func(c *checkCtx) []*interp.Unit {
			ls, ld := pick(c, 4, 5), pick(c, 4, 5)
			us := []*interp.Unit{
				unit(lex, "H_lex_total", fmt.Sprintf("H_lex_total[Ls<=%d]", ls), map[string]interface{}{"Ls": ls}),
				unit(cli, "H_doinit_total", fmt.Sprintf("H_doinit_total[Ls<=%d]", ld), map[string]interface{}{"Ls": ld}),
			}
			specs := append(evalList(c, "vFamilyEnv"), evalList(c, "vFamilyEnvEnd")...)
			cur := append(evalList(c, "vFamilyCurated"), evalList(c, "vFamilyEnd")...)
			var profs []profile
			if c.quick() {
				specs = append(specs, everyNth(cur, 6, c.seed)...)
				profs = []profile{{"raw K<=2 L<=2", map[string]interface{}{"profile": "raw", "K": 2, "L": 2}}}
			} else {
				specs = append(specs, cur...)
				specs = append(specs, everyNth(evalList(c, "vFamilyGenerated"), 8, c.seed)...)
				profs = []profile{{"raw K<=2 L<=3", map[string]interface{}{"profile": "raw", "K": 2, "L": 3}},
					{"tmpl K<=2 Lp<=1", map[string]interface{}{"profile": "tmpl", "K": 2, "Lp": 1}}}
			}
			return append(us, specUnits("H_apply_total", specs, profs, 1)...)
		},
		Bounds: func(c *checkCtx) map[string]interface{} {
			return map[string]interface{}{"H_lex_total/H_doinit_total": fmt.Sprintf("all spec byte strings of <= %d bytes", pick(c, 4, 5)),
				"H_apply_total": "env-heavy + curated (+ generated, thorough) specs x every subset of the 4 options backed by a set environment variable x argv " + map[bool]string{true: "raw K<=2 L<=2", false: "raw K<=2 L<=3 and template K<=2"}[c.quick()],
				"unwinding": "recursion depth of fsm apply <= (bytes+tokens+2)*(4*len(spec)+6); calls of simplifySelf <= 40*(len(spec)+2)^2; 20M interpreted instructions per path"}
		},
		Assumptions: commonAssumptions,
		Outside:     []string{"specs / argument vectors beyond the bounds", "\"promptly\" is read as the derived step bounds, not wall-clock time"},
	})
	reg(&propDef{
		ID: "C09", Level: "model_checking",
		Units: func(c *checkCtx) []*interp.Unit {
			cur := endFree(evalList(c, "vFamilyCurated"))
			gen := endFree(evalList(c, "vFamilyGenerated"))
			if c.quick() {
				specs := append(everyNth(cur, 3, c.seed), everyNth(gen, 64, c.seed)...)
				return specUnits("H_dd_insert", specs, []profile{{"tmpl K<=2 Lp<=1", map[string]interface{}{"profile": "tmpl", "K": 2, "Lp": 1}}, {"raw K<=2 L<=2", map[string]interface{}{"profile": "raw", "K": 2, "L": 2}}}, 1)
			}
			specs := append(cur, everyNth(gen, 4, c.seed)...)
			return specUnits("H_dd_insert", specs, []profile{{"tmpl K<=3 Lp<=1", map[string]interface{}{"profile": "tmpl", "K": 3, "Lp": 1}}, {"raw K<=2 L<=3", map[string]interface{}{"profile": "raw", "K": 2, "L": 3}}}, 1)
		},
		Bounds: func(c *checkCtx) map[string]interface{} {
			return map[string]interface{}{"insertion": "every insertion point 0..K whose tail consists of non-dash positionals, including the very end",
				"argv": map[bool]string{true: "template K<=2 items (payload 1 byte), raw K<=2 L<=2", false: "template K<=3 items, raw K<=2 L<=3"}[c.quick()],
				"specs": "`--`-free curated and generated specs (subset rotated by VERIF_SEED); verbatim binding after `--` and spec-level `--` are covered by C01/C02 on the END family"}
		},
		Assumptions: append([]string{"no environment-backed options; token p-1 is not a valued option waiting for its value; no `--` before the insertion point"}, commonAssumptions...),
		Outside:     []string{"longer command lines"},
	})
	reg(&propDef{
		ID: "C10", Level: "model_checking",
		Units: func(c *checkCtx) []*interp.Unit {
			all := withOption(endFree(append(evalList(c, "vFamilyCurated"), evalList(c, "vFamilyGenerated")...)))
			if c.quick() {
				return specUnits("H_respell", everyNth(all, 48, c.seed), []profile{{"n<=2 Lp<=1", map[string]interface{}{"n": 2, "Lp": 1}}}, 1)
			}
			us := specUnits("H_respell", everyNth(all, 6, c.seed), []profile{{"n<=2 Lp<=2", map[string]interface{}{"n": 2, "Lp": 2}}}, 1)
			return append(us, specUnits("H_respell", everyNth(all, 48, c.seed), []profile{{"n<=3 Lp<=1", map[string]interface{}{"n": 3, "Lp": 1}}}, 1)...)
		},
		Bounds: func(c *checkCtx) map[string]interface{} {
			return map[string]interface{}{"items": map[bool]string{true: "n<=2 items, payload 1 symbolic byte", false: "n<=2 items payload <=2 bytes; n<=3 items payload 1 byte"}[c.quick()],
				"spellings": "every form (4 for flags, 5 for valued options) and every legal folding of adjacent short forms, compared with the canonical spelling (one token per occurrence, long form with '=')"}
		},
		Assumptions: append([]string{"values are non-empty and do not start with '-' (separate form) or '=' (attached form); no option item after a `--` item", "forms and folds are case splits enumerated by the engine; payload bytes are symbolic"}, commonAssumptions...),
		Outside:     []string{"more than n occurrences"},
	})
	reg(&propDef{
		ID: "C11", Level: "model_checking",
		Units: func(c *checkCtx) []*interp.Unit {
			all := withOption(endFree(append(evalList(c, "vFamilyCurated"), evalList(c, "vFamilyGenerated")...)))
			if c.quick() {
				us := specUnits("H_swap", everyNth(all, 24, c.seed), []profile{{"n<=2 Lp<=1", map[string]interface{}{"n": 2, "Lp": 1}}}, 1)
				return append(us, specUnits("H_swap", everyNth(all, 192, c.seed), []profile{{"n<=3 Lp<=1", map[string]interface{}{"n": 3, "Lp": 1}}}, 1)...)
			}
			return specUnits("H_swap", everyNth(all, 8, c.seed), []profile{{"n<=3 Lp<=1", map[string]interface{}{"n": 3, "Lp": 1}}}, 1)
		},
		Bounds: func(c *checkCtx) map[string]interface{} {
			return map[string]interface{}{"items": "n<=3 items, payload 1 symbolic byte; every adjacent pair of occurrences of different options; every spelling incl. folded pairs"}
		},
		Assumptions: append([]string{"both occurrences precede any `--`"}, commonAssumptions...),
		Outside:     []string{"more than n occurrences"},
	})
	reg(&propDef{
		ID: "C12", Level: "model_checking",
		Units: func(c *checkCtx) []*interp.Unit {
			specs := append(evalList(c, "vFamilyEnv"), evalList(c, "vFamilyEnvEnd")...)
			cur := append(evalList(c, "vFamilyCurated"), evalList(c, "vFamilyEnd")...)
			if c.quick() {
				return specUnits("H_envmono", append(everyNth(specs, 2, c.seed), everyNth(cur, 16, c.seed)...), []profile{{"tmpl K<=2 Lp<=1", map[string]interface{}{"profile": "tmpl", "K": 2, "Lp": 1}}}, 1)
			}
			specs = append(specs, cur...)
			return specUnits("H_envmono", specs, []profile{{"tmpl K<=2 Lp<=1", map[string]interface{}{"profile": "tmpl", "K": 2, "Lp": 1}}, {"raw K<=2 L<=3", map[string]interface{}{"profile": "raw", "K": 2, "L": 3}}}, 1)
		},
		Bounds: func(c *checkCtx) map[string]interface{} {
			return map[string]interface{}{"env": "every subset of {VA,VB,VO,VE} set to a fixed valid value (symbolic bits)", "argv": "template K<=2 items over 20 shapes" + map[bool]string{true: "", false: "; raw K<=2 L<=3"}[c.quick()],
				"specs": "env-heavy shapes + curated + END family (quick: a rotated subset)"}
		},
		Assumptions: append([]string{"value-identity clause only for specs without `--`", "differential clause (acceptance with env == reference with env fallback) only for specs without option groups"}, commonAssumptions...),
		Outside:     []string{"longer command lines", "invalid environment values (C06)"},
	})
}

func containsEnd(s string) bool {
	for i := 0; i+1 < len(s); i++ {
		if s[i] == '-' && s[i+1] == '-' && (i+2 == len(s) || s[i+2] == ' ' || s[i+2] == '\t') {
			return true
		}
	}
	return false
}

func hasOption(s string) bool {
	for i := 0; i+1 < len(s); i++ {
		if s[i] == '-' && s[i+1] != ' ' {
			return true
		}
		if s[i] == 'O' && s[i+1] == 'P' {
			return true
		}
	}
	return false
}
