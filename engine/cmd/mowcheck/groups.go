package main

import (
	"bytes"
	"encoding/json"
	"fmt"
	"os"
	"os/exec"
	"path/filepath"
	"sort"
	"strings"
	"time"

	"verif/engine/interp"
)

const rootMod = "github.com/jawher/mow.cli"

// repoDir is /repo; mutation trials that must not disturb a sweep running on /repo point
// VERIF_REPO at a scratch copy instead (never used by a registered command).
var repoDir = func() string {
	if d := os.Getenv("VERIF_REPO"); d != "" {
		return d
	}
	return "/repo"
}()

// verifDir is /verif, or the snapshot a background run works from (VERIF_DIR).
var verifDir = func() string {
	if d := os.Getenv("VERIF_DIR"); d != "" {
		return d
	}
	return "/verif"
}()

// group is a set of harness files injected into one package of /repo.
type group struct {
	Name    string
	Dir     string // package directory relative to /repo ("" = root)
	PkgName string
	PkgPath string
}

var groups = map[string]*group{
	"lexer":   {Name: "lexer", Dir: "internal/lexer", PkgName: "lexer"},
	"parser":  {Name: "parser", Dir: "internal/parser", PkgName: "parser"},
	"matcher": {Name: "matcher", Dir: "internal/matcher", PkgName: "matcher"},
	"fsm":     {Name: "fsm", Dir: "internal/fsm", PkgName: "fsm"},
	"flow":    {Name: "flow", Dir: "internal/flow", PkgName: "flow"},
	"values":  {Name: "values", Dir: "internal/values", PkgName: "values"},
	"cli":     {Name: "cli", Dir: "", PkgName: "cli"},
}

func init() {
	for _, g := range groups {
		g.PkgPath = rootMod
		if g.Dir != "" {
			g.PkgPath += "/" + g.Dir
		}
	}
}

// harnessDir: /verif/harness, or a staging copy during development (VERIF_HARNESS).
func harnessDir() string {
	if d := os.Getenv("VERIF_HARNESS"); d != "" {
		return d
	}
	return filepath.Join(verifDir, "harness")
}

func (g *group) files() []string {
	fs, _ := filepath.Glob(filepath.Join(harnessDir(), g.Name, "*.go"))
	sort.Strings(fs)
	return fs
}

func tmpl(name, pkg string) []byte {
	b, err := os.ReadFile(filepath.Join(harnessDir(), "rt", name))
	if err != nil {
		fatal("missing runtime template: %v", err)
	}
	return bytes.Replace(b, []byte("package PKG"), []byte("package "+pkg), 1)
}

// symOverlay builds the overlay for the symbolic load: every group's harness files
// plus the body-less runtime.
func symOverlay(only map[string]bool) map[string][]byte {
	ov := map[string][]byte{}
	for _, g := range groups {
		if only != nil && !only[g.Name] {
			continue
		}
		fs := g.files()
		if len(fs) == 0 {
			continue
		}
		dir := filepath.Join(repoDir, g.Dir)
		for _, f := range fs {
			b, err := os.ReadFile(f)
			if err != nil {
				fatal("%v", err)
			}
			ov[filepath.Join(dir, "zz_verif_"+filepath.Base(f))] = b
		}
		ov[filepath.Join(dir, "zz_verif_rt.go")] = tmpl("rt_sym.go.tmpl", g.PkgName)
	}
	return ov
}

func goEnv() []string {
	return append(os.Environ(), "GOFLAGS=-mod=mod", "GOPROXY=off", "GOSUMDB=off", "GOTOOLCHAIN=local", "CGO_ENABLED=0")
}

// nativeBuild compiles the native twin of a group into a test binary.
func nativeBuild(g *group, scratch string) (string, error) {
	dir := filepath.Join(repoDir, g.Dir)
	repl := map[string]string{}
	for _, f := range g.files() {
		repl[filepath.Join(dir, "zz_verif_"+filepath.Base(f))] = f
	}
	rt := filepath.Join(scratch, g.Name+"_rt_native.go")
	if err := os.WriteFile(rt, tmpl("rt_native.go.tmpl", g.PkgName), 0o644); err != nil {
		return "", err
	}
	tf := filepath.Join(scratch, g.Name+"_replay_test.go")
	if err := os.WriteFile(tf, tmpl("replay_test.go.tmpl", g.PkgName), 0o644); err != nil {
		return "", err
	}
	repl[filepath.Join(dir, "zz_verif_rt.go")] = rt
	repl[filepath.Join(dir, "zz_verif_replay_test.go")] = tf
	ovb, _ := json.Marshal(map[string]interface{}{"Replace": repl})
	ovf := filepath.Join(scratch, g.Name+"_overlay.json")
	if err := os.WriteFile(ovf, ovb, 0o644); err != nil {
		return "", err
	}
	bin := filepath.Join(scratch, g.Name+".test")
	pkg := "./" + g.Dir
	if g.Dir == "" {
		pkg = "."
	}
	cmd := exec.Command("go", "test", "-c", "-vet=off", "-overlay", ovf, "-o", bin, pkg)
	cmd.Dir = repoDir
	cmd.Env = goEnv()
	out, err := cmd.CombinedOutput()
	if err != nil {
		return "", fmt.Errorf("native build of %s failed: %v\n%s", g.Name, err, out)
	}
	return bin, nil
}

type nativeCase struct {
	Unit    string                 `json:"unit"`
	Entry   string                 `json:"entry"`
	Params  map[string]interface{} `json:"params"`
	Nondets []interp.ReplayVal     `json:"nondets"`
	Known   []string               `json:"known"`
}

type nativeResult struct {
	Case     int      `json:"case"`
	Failed   []string `json:"failed"`
	Obs      []string `json:"obs"`
	Covers   []string `json:"covers"`
	Diverged string   `json:"diverged"`
	Panicked string   `json:"panicked"`
	Done     bool     `json:"done"`
	Started  bool     `json:"-"`
	Crashed  string   `json:"-"` // process died / timed out while running this case
}

// nativeRun executes cases [lo,hi) in one process; a case that kills the process is
// reported as crashed and the rest is retried.
func nativeRun(bin string, scratch string, cases []nativeCase, timeout time.Duration) []nativeResult {
	results := make([]nativeResult, len(cases))
	for i := range results {
		results[i].Case = i
	}
	cf := filepath.Join(scratch, fmt.Sprintf("cases_%d.json", time.Now().UnixNano()))
	b, _ := json.Marshal(cases)
	os.WriteFile(cf, b, 0o644)
	defer os.Remove(cf)
	next := 0
	for next < len(cases) {
		// run the remaining cases one process at a time
		of := cf + ".out"
		os.Remove(of)
		// write a case file with only the remaining cases
		rest := cases[next:]
		rb, _ := json.Marshal(rest)
		os.WriteFile(cf, rb, 0o644)
		cmd := exec.Command(bin, "-test.run", "^TestVerifReplay$", "-test.timeout", "0")
		cmd.Dir = scratch
		cmd.Env = append(goEnv(), "VERIF_REPLAY="+cf, "VERIF_OUT="+of)
		var stderr bytes.Buffer
		cmd.Stdout = &stderr
		cmd.Stderr = &stderr
		cmd.Start()
		done := make(chan error, 1)
		go func() { done <- cmd.Wait() }()
		var werr error
		timedOut := false
		select {
		case werr = <-done:
		case <-time.After(timeout * time.Duration(1+len(rest)/50)):
			cmd.Process.Kill()
			<-done
			timedOut = true
		}
		data, _ := os.ReadFile(of)
		os.Remove(of)
		started := -1
		finished := -1
		for _, line := range strings.Split(string(data), "\n") {
			line = strings.TrimSpace(line)
			if line == "" {
				continue
			}
			if strings.HasPrefix(line, "{\"start\":") {
				var s struct{ Start int }
				json.Unmarshal([]byte(line), &s)
				started = s.Start
				continue
			}
			var r nativeResult
			if json.Unmarshal([]byte(line), &r) == nil {
				idx := next + r.Case
				r.Case = idx
				r.Started = true
				results[idx] = r
				finished = r.Case - next
			}
		}
		if started > finished {
			// process died inside case 'started'
			idx := next + started
			results[idx].Started = true
			msg := "process died"
			if timedOut {
				msg = "timeout (hang)"
			} else if werr != nil {
				tail := stderr.String()
				if len(tail) > 600 {
					tail = tail[:600]
				}
				msg = "process died: " + werr.Error() + ": " + firstLines(tail, 6)
			}
			results[idx].Crashed = msg
			next = idx + 1
			continue
		}
		if finished+1 < len(rest) {
			// did not even start the next case: infrastructure problem
			idx := next + finished + 1
			results[idx].Crashed = "native runner stopped: " + firstLines(stderr.String(), 6)
			next = idx + 1
			continue
		}
		break
	}
	return results
}

func firstLines(s string, n int) string {
	ls := strings.Split(strings.TrimSpace(s), "\n")
	if len(ls) > n {
		ls = ls[:n]
	}
	return strings.Join(ls, " | ")
}

func fatal(f string, a ...interface{}) {
	fmt.Fprintf(os.Stderr, "mowcheck: "+f+"\n", a...)
	os.Exit(2)
}
