// Package sym holds the SMT term layer of gosym: hash-consed QF_UFBV terms with
// light simplification, an SMT-LIB2 printer and a driver for an incremental solver
// process.
package sym

import (
	"fmt"
	"strconv"
	"strings"
)

type Op uint8

const (
	OpConst Op = iota // BV or Bool constant
	OpVar
	OpNot
	OpAnd
	OpOr
	OpEq
	OpIte
	OpAdd
	OpSub
	OpMul
	OpBvAnd
	OpBvOr
	OpBvXor
	OpShl
	OpLshr
	OpAshr
	OpUlt
	OpUle
	OpSlt
	OpSle
	OpNeg
	OpBvNot
	OpExtract // K = hi<<8|lo
	OpConcat
	OpZext // W = new width
	OpSext
	OpUdiv
	OpUrem
	OpSdiv
	OpSrem
	OpUF // Name = function, args
)

var opNames = map[Op]string{
	OpNot: "not", OpAnd: "and", OpOr: "or", OpEq: "=", OpIte: "ite", OpAdd: "bvadd", OpSub: "bvsub",
	OpMul: "bvmul", OpBvAnd: "bvand", OpBvOr: "bvor", OpBvXor: "bvxor", OpShl: "bvshl", OpLshr: "bvlshr",
	OpAshr: "bvashr", OpUlt: "bvult", OpUle: "bvule", OpSlt: "bvslt", OpSle: "bvsle", OpNeg: "bvneg",
	OpBvNot: "bvnot", OpConcat: "concat", OpUdiv: "bvudiv", OpUrem: "bvurem", OpSdiv: "bvsdiv", OpSrem: "bvsrem",
}

// Term is an immutable SMT term. W == 0 means sort Bool, otherwise a bit-vector of
// width W.
type Term struct {
	ID   int
	Op   Op
	W    int
	K    uint64 // constant value / extract bounds
	Name string // variable or UF name
	Args []*Term
	str  string
}

func (t *Term) IsBool() bool  { return t.W == 0 }
func (t *Term) IsConst() bool { return t.Op == OpConst }

type tkey struct {
	op      Op
	w       int
	k       uint64
	name    string
	a, b, c int
	rest    string
}

// Ctx interns terms. One per worker; not safe for concurrent use.
type Ctx struct {
	tab   map[tkey]*Term
	next  int
	True  *Term
	False *Term
	// UFs declared so far: name -> signature "(w1 w2 ...) w"
	UFs     map[string]string
	UFOrder []string
	Vars    map[string]*Term
	VarList []*Term
}

func NewCtx() *Ctx {
	c := &Ctx{tab: map[tkey]*Term{}, UFs: map[string]string{}, Vars: map[string]*Term{}}
	c.True = c.mk(OpConst, 0, 1, "", nil)
	c.False = c.mk(OpConst, 0, 0, "", nil)
	return c
}

func (c *Ctx) mk(op Op, w int, k uint64, name string, args []*Term) *Term {
	key := tkey{op: op, w: w, k: k, name: name}
	switch len(args) {
	case 0:
	case 1:
		key.a = args[0].ID + 1
	case 2:
		key.a, key.b = args[0].ID+1, args[1].ID+1
	case 3:
		key.a, key.b, key.c = args[0].ID+1, args[1].ID+1, args[2].ID+1
	default:
		var sb strings.Builder
		for _, a := range args {
			sb.WriteString(strconv.Itoa(a.ID))
			sb.WriteByte(',')
		}
		key.rest = sb.String()
	}
	if t, ok := c.tab[key]; ok {
		return t
	}
	t := &Term{ID: c.next, Op: op, W: w, K: k, Name: name, Args: args}
	c.next++
	c.tab[key] = t
	return t
}

func mask(w int) uint64 {
	if w >= 64 {
		return ^uint64(0)
	}
	return (uint64(1) << uint(w)) - 1
}

func (c *Ctx) Bool(b bool) *Term {
	if b {
		return c.True
	}
	return c.False
}

func (c *Ctx) BV(w int, v uint64) *Term { return c.mk(OpConst, w, v&mask(w), "", nil) }

// Var returns the variable of that name and width (w == 0: Bool).
func (c *Ctx) Var(name string, w int) *Term {
	if t, ok := c.Vars[name]; ok {
		if t.W != w {
			panic("sym: variable " + name + " redeclared with another sort")
		}
		return t
	}
	t := c.mk(OpVar, w, 0, name, nil)
	c.Vars[name] = t
	c.VarList = append(c.VarList, t)
	return t
}

func (c *Ctx) Not(a *Term) *Term {
	if a.Op == OpConst {
		return c.Bool(a.K == 0)
	}
	if a.Op == OpNot {
		return a.Args[0]
	}
	return c.mk(OpNot, 0, 0, "", []*Term{a})
}

func (c *Ctx) And(a, b *Term) *Term {
	if a.Op == OpConst {
		if a.K == 0 {
			return c.False
		}
		return b
	}
	if b.Op == OpConst {
		if b.K == 0 {
			return c.False
		}
		return a
	}
	if a == b {
		return a
	}
	return c.mk(OpAnd, 0, 0, "", []*Term{a, b})
}

func (c *Ctx) Or(a, b *Term) *Term {
	if a.Op == OpConst {
		if a.K != 0 {
			return c.True
		}
		return b
	}
	if b.Op == OpConst {
		if b.K != 0 {
			return c.True
		}
		return a
	}
	if a == b {
		return a
	}
	return c.mk(OpOr, 0, 0, "", []*Term{a, b})
}

func (c *Ctx) Eq(a, b *Term) *Term {
	if a.W != b.W {
		panic(fmt.Sprintf("sym: Eq on different sorts %d %d", a.W, b.W))
	}
	if a == b {
		return c.True
	}
	if a.Op == OpConst && b.Op == OpConst {
		return c.Bool(a.K == b.K)
	}
	if a.W == 0 {
		if a.Op == OpConst {
			if a.K != 0 {
				return b
			}
			return c.Not(b)
		}
		if b.Op == OpConst {
			if b.K != 0 {
				return a
			}
			return c.Not(a)
		}
	}
	if a.ID > b.ID {
		a, b = b, a
	}
	return c.mk(OpEq, 0, 0, "", []*Term{a, b})
}

func (c *Ctx) Ite(cond, a, b *Term) *Term {
	if cond.Op == OpConst {
		if cond.K != 0 {
			return a
		}
		return b
	}
	if a == b {
		return a
	}
	if a.W == 0 && a.Op == OpConst && b.Op == OpConst {
		if a.K != 0 {
			return cond
		}
		return c.Not(cond)
	}
	return c.mk(OpIte, a.W, 0, "", []*Term{cond, a, b})
}

func sext(w int, v uint64) int64 {
	if w >= 64 {
		return int64(v)
	}
	s := uint(64 - w)
	return int64(v<<s) >> s
}

// Bin builds a binary bit-vector operation (arithmetic or comparison).
func (c *Ctx) Bin(op Op, a, b *Term) *Term {
	if a.W != b.W {
		panic(fmt.Sprintf("sym: %v on different widths %d %d", opNames[op], a.W, b.W))
	}
	w := a.W
	if a.Op == OpConst && b.Op == OpConst {
		x, y := a.K, b.K
		sx, sy := sext(w, x), sext(w, y)
		switch op {
		case OpAdd:
			return c.BV(w, x+y)
		case OpSub:
			return c.BV(w, x-y)
		case OpMul:
			return c.BV(w, x*y)
		case OpBvAnd:
			return c.BV(w, x&y)
		case OpBvOr:
			return c.BV(w, x|y)
		case OpBvXor:
			return c.BV(w, x^y)
		case OpShl:
			if y >= uint64(w) {
				return c.BV(w, 0)
			}
			return c.BV(w, x<<y)
		case OpLshr:
			if y >= uint64(w) {
				return c.BV(w, 0)
			}
			return c.BV(w, x>>y)
		case OpAshr:
			if y >= uint64(w) {
				y = uint64(w - 1)
			}
			return c.BV(w, uint64(sx>>y))
		case OpUlt:
			return c.Bool(x < y)
		case OpUle:
			return c.Bool(x <= y)
		case OpSlt:
			return c.Bool(sx < sy)
		case OpSle:
			return c.Bool(sx <= sy)
		case OpUdiv:
			if y != 0 {
				return c.BV(w, x/y)
			}
		case OpUrem:
			if y != 0 {
				return c.BV(w, x%y)
			}
		case OpSdiv:
			if y != 0 && !(sy == -1) {
				return c.BV(w, uint64(sx/sy))
			}
		case OpSrem:
			if y != 0 && !(sy == -1) {
				return c.BV(w, uint64(sx%sy))
			}
		}
	}
	switch op {
	case OpAdd:
		if a.Op == OpConst && a.K == 0 {
			return b
		}
		if b.Op == OpConst && b.K == 0 {
			return a
		}
	case OpSub:
		if b.Op == OpConst && b.K == 0 {
			return a
		}
		if a == b {
			return c.BV(w, 0)
		}
	case OpUlt, OpSlt:
		if a == b {
			return c.False
		}
	case OpUle, OpSle:
		if a == b {
			return c.True
		}
	}
	rw := w
	switch op {
	case OpUlt, OpUle, OpSlt, OpSle:
		rw = 0
	}
	return c.mk(op, rw, 0, "", []*Term{a, b})
}

func (c *Ctx) Neg(a *Term) *Term {
	if a.Op == OpConst {
		return c.BV(a.W, -a.K)
	}
	return c.mk(OpNeg, a.W, 0, "", []*Term{a})
}

func (c *Ctx) BvNot(a *Term) *Term {
	if a.Op == OpConst {
		return c.BV(a.W, ^a.K)
	}
	return c.mk(OpBvNot, a.W, 0, "", []*Term{a})
}

func (c *Ctx) Extract(hi, lo int, a *Term) *Term {
	if lo == 0 && hi == a.W-1 {
		return a
	}
	w := hi - lo + 1
	if a.Op == OpConst {
		return c.BV(w, a.K>>uint(lo))
	}
	if (a.Op == OpZext || a.Op == OpSext) && hi < a.Args[0].W {
		return c.Extract(hi, lo, a.Args[0])
	}
	return c.mk(OpExtract, w, uint64(hi)<<8|uint64(lo), "", []*Term{a})
}

func (c *Ctx) Zext(w int, a *Term) *Term {
	if w == a.W {
		return a
	}
	if w < a.W {
		return c.Extract(w-1, 0, a)
	}
	if a.Op == OpConst {
		return c.BV(w, a.K)
	}
	return c.mk(OpZext, w, 0, "", []*Term{a})
}

func (c *Ctx) Sext(w int, a *Term) *Term {
	if w == a.W {
		return a
	}
	if w < a.W {
		return c.Extract(w-1, 0, a)
	}
	if a.Op == OpConst {
		return c.BV(w, uint64(sext(a.W, a.K)))
	}
	return c.mk(OpSext, w, 0, "", []*Term{a})
}

// UF applies an uninterpreted function; w is the result width (0: Bool).
func (c *Ctx) UF(name string, w int, args ...*Term) *Term {
	var sig strings.Builder
	sig.WriteString("(")
	for i, a := range args {
		if i > 0 {
			sig.WriteByte(' ')
		}
		sig.WriteString(sortStr(a.W))
	}
	sig.WriteString(") ")
	sig.WriteString(sortStr(w))
	if old, ok := c.UFs[name]; ok {
		if old != sig.String() {
			panic("sym: UF " + name + " used with two signatures")
		}
	} else {
		c.UFs[name] = sig.String()
		c.UFOrder = append(c.UFOrder, name)
	}
	return c.mk(OpUF, w, 0, name, append([]*Term(nil), args...))
}

func sortStr(w int) string {
	if w == 0 {
		return "Bool"
	}
	return "(_ BitVec " + strconv.Itoa(w) + ")"
}

// SortStr is exported for the solver driver.
func SortStr(w int) string { return sortStr(w) }

func (t *Term) String() string {
	if t.str != "" {
		return t.str
	}
	var s string
	switch t.Op {
	case OpConst:
		if t.W == 0 {
			if t.K != 0 {
				s = "true"
			} else {
				s = "false"
			}
		} else if t.W%4 == 0 {
			s = fmt.Sprintf("#x%0*x", t.W/4, t.K)
		} else {
			s = fmt.Sprintf("(_ bv%d %d)", t.K, t.W)
		}
	case OpVar:
		s = t.Name
	case OpExtract:
		s = fmt.Sprintf("((_ extract %d %d) %s)", t.K>>8, t.K&0xff, t.Args[0])
	case OpZext:
		s = fmt.Sprintf("((_ zero_extend %d) %s)", t.W-t.Args[0].W, t.Args[0])
	case OpSext:
		s = fmt.Sprintf("((_ sign_extend %d) %s)", t.W-t.Args[0].W, t.Args[0])
	case OpUF:
		if len(t.Args) == 0 {
			s = t.Name
			break
		}
		var sb strings.Builder
		sb.WriteString("(" + t.Name)
		for _, a := range t.Args {
			sb.WriteByte(' ')
			sb.WriteString(a.String())
		}
		sb.WriteByte(')')
		s = sb.String()
	default:
		var sb strings.Builder
		sb.WriteString("(" + opNames[t.Op])
		for _, a := range t.Args {
			sb.WriteByte(' ')
			sb.WriteString(a.String())
		}
		sb.WriteByte(')')
		s = sb.String()
	}
	t.str = s
	return s
}

// Eval evaluates t under an assignment of variables (and UF applications, keyed by
// their printed form). Missing entries evaluate to 0.
func (t *Term) Eval(env map[string]uint64) uint64 {
	a := func(i int) uint64 { return t.Args[i].Eval(env) }
	w := t.W
	aw := 0
	if len(t.Args) > 0 {
		aw = t.Args[0].W
	}
	b2u := func(b bool) uint64 {
		if b {
			return 1
		}
		return 0
	}
	switch t.Op {
	case OpConst:
		return t.K
	case OpVar:
		return env[t.Name] & maskB(w)
	case OpUF:
		return env[t.String()] & maskB(w)
	case OpNot:
		return b2u(a(0) == 0)
	case OpAnd:
		return b2u(a(0) != 0 && a(1) != 0)
	case OpOr:
		return b2u(a(0) != 0 || a(1) != 0)
	case OpEq:
		return b2u(a(0) == a(1))
	case OpIte:
		if a(0) != 0 {
			return a(1)
		}
		return a(2)
	case OpAdd:
		return (a(0) + a(1)) & mask(w)
	case OpSub:
		return (a(0) - a(1)) & mask(w)
	case OpMul:
		return (a(0) * a(1)) & mask(w)
	case OpBvAnd:
		return a(0) & a(1)
	case OpBvOr:
		return a(0) | a(1)
	case OpBvXor:
		return a(0) ^ a(1)
	case OpShl:
		if a(1) >= uint64(w) {
			return 0
		}
		return (a(0) << a(1)) & mask(w)
	case OpLshr:
		if a(1) >= uint64(w) {
			return 0
		}
		return a(0) >> a(1)
	case OpAshr:
		y := a(1)
		if y >= uint64(w) {
			y = uint64(w - 1)
		}
		return uint64(sext(w, a(0))>>y) & mask(w)
	case OpUlt:
		return b2u(a(0) < a(1))
	case OpUle:
		return b2u(a(0) <= a(1))
	case OpSlt:
		return b2u(sext(aw, a(0)) < sext(aw, a(1)))
	case OpSle:
		return b2u(sext(aw, a(0)) <= sext(aw, a(1)))
	case OpNeg:
		return (-a(0)) & mask(w)
	case OpBvNot:
		return (^a(0)) & mask(w)
	case OpExtract:
		return (a(0) >> (t.K & 0xff)) & mask(w)
	case OpConcat:
		return (a(0)<<uint(t.Args[1].W) | a(1)) & mask(w)
	case OpZext:
		return a(0)
	case OpSext:
		return uint64(sext(aw, a(0))) & mask(w)
	case OpUdiv:
		if a(1) == 0 {
			return mask(w)
		}
		return a(0) / a(1)
	case OpUrem:
		if a(1) == 0 {
			return a(0)
		}
		return a(0) % a(1)
	case OpSdiv, OpSrem:
		x, y := sext(w, a(0)), sext(w, a(1))
		if y == 0 {
			if t.Op == OpSrem {
				return a(0)
			}
			if x < 0 {
				return 1
			}
			return mask(w)
		}
		if t.Op == OpSdiv {
			return uint64(x/y) & mask(w)
		}
		return uint64(x%y) & mask(w)
	}
	panic("sym: Eval: unknown op")
}

func maskB(w int) uint64 {
	if w == 0 {
		return 1
	}
	return mask(w)
}

// Vars collects the free variables and UF applications of t into set.
func (t *Term) Collect(vars map[string]*Term) {
	switch t.Op {
	case OpVar:
		vars[t.Name] = t
	case OpUF:
		vars[t.String()] = t
	}
	for _, a := range t.Args {
		a.Collect(vars)
	}
}
