package sym

import (
	"bufio"
	"fmt"
	"io"
	"os/exec"
	"strconv"
	"strings"
	"time"
)

type Result int

const (
	Unsat Result = iota
	Sat
	Unknown
)

func (r Result) String() string { return [...]string{"unsat", "sat", "unknown"}[r] }

// backend evaluates a batch of SMT-LIB2 commands and returns everything the solver
// printed in response.
type backend interface {
	eval(cmds string) string
	close()
}

// Solver drives one incremental SMT solver: libz3 in-process (name "z3"), or a solver
// process over pipes ("z3-pipe", "z3-new", "cvc5").
type Solver struct {
	Name    string
	be      backend
	pending strings.Builder
	level   int
	decl    map[string]int // symbol -> level at which it was declared
	byLevel [][]string
	ctx     *Ctx

	Queries  int
	NSat     int
	NUnsat   int
	NUnknown int
	Time     time.Duration
	Errors   []string
	Log      io.Writer // optional transcript
}

func Start(name string, ctx *Ctx, timeoutMs int) (*Solver, error) {
	s := &Solver{Name: name, decl: map[string]int{}, byLevel: [][]string{nil}, ctx: ctx}
	switch name {
	case "z3":
		be, err := newInproc(timeoutMs)
		if err != nil {
			return nil, err
		}
		s.be = be
	case "z3-pipe":
		be, err := newPipe([]string{"z3", "-in", "-t:" + strconv.Itoa(timeoutMs)})
		if err != nil {
			return nil, err
		}
		s.be = be
	case "z3-new":
		be, err := newPipe([]string{"z3-new", "-in", "-t:" + strconv.Itoa(timeoutMs)})
		if err != nil {
			return nil, err
		}
		s.be = be
	case "cvc5":
		be, err := newPipe([]string{"cvc5", "--incremental", "--lang=smt2", "--produce-models", "--tlimit-per=" + strconv.Itoa(timeoutMs)})
		if err != nil {
			return nil, err
		}
		s.be = be
		s.send("(set-logic ALL)")
	default:
		return nil, fmt.Errorf("unknown solver %q", name)
	}
	s.send("(set-option :print-success false)")
	s.send("(set-option :produce-models true)")
	return s, nil
}

func (s *Solver) Close() {
	if s != nil && s.be != nil {
		s.be.close()
		s.be = nil
	}
}

func (s *Solver) send(line string) {
	if s.Log != nil {
		fmt.Fprintln(s.Log, line)
	}
	s.pending.WriteString(line)
	s.pending.WriteByte('\n')
}

func (s *Solver) exchange() string {
	cmds := s.pending.String()
	s.pending.Reset()
	out := s.be.eval(cmds)
	if s.Log != nil {
		fmt.Fprintln(s.Log, "; -> "+strings.TrimSpace(out))
	}
	return out
}

func (s *Solver) Level() int { return s.level }

func (s *Solver) Push() {
	s.send("(push 1)")
	s.level++
	s.byLevel = append(s.byLevel, nil)
}

func (s *Solver) Pop(n int) {
	if n <= 0 {
		return
	}
	s.send("(pop " + strconv.Itoa(n) + ")")
	for i := 0; i < n; i++ {
		for _, name := range s.byLevel[s.level] {
			delete(s.decl, name)
		}
		s.byLevel = s.byLevel[:s.level]
		s.level--
	}
}

func (s *Solver) declare(t *Term) {
	switch t.Op {
	case OpVar:
		if _, ok := s.decl[t.Name]; !ok {
			s.send("(declare-const " + t.Name + " " + sortStr(t.W) + ")")
			s.decl[t.Name] = s.level
			s.byLevel[s.level] = append(s.byLevel[s.level], t.Name)
		}
		return
	case OpConst:
		return
	case OpUF:
		if _, ok := s.decl[t.Name]; !ok {
			s.send("(declare-fun " + t.Name + " " + s.ctx.UFs[t.Name] + ")")
			s.decl[t.Name] = s.level
			s.byLevel[s.level] = append(s.byLevel[s.level], t.Name)
		}
	}
	for _, a := range t.Args {
		s.declare(a)
	}
}

func (s *Solver) Assert(t *Term) {
	s.declare(t)
	s.send("(assert " + t.String() + ")")
}

// Check decides the current assertion stack extended by extra (may be nil). When
// the answer is sat and want is non-empty, the values of those terms are returned
// keyed by their printed form.
func (s *Solver) Check(extra *Term, want []*Term) (Result, map[string]uint64) {
	if extra == nil {
		return s.CheckAll(nil, want)
	}
	return s.CheckAll([]*Term{extra}, want)
}

// CheckAll is Check with several extra assertions, asserted one by one (no conjunction
// term is built, so that long fact lists stay linear in size).
func (s *Solver) CheckAll(extras []*Term, want []*Term) (Result, map[string]uint64) {
	start := time.Now()
	defer func() { s.Time += time.Since(start) }()
	s.Queries++
	if len(extras) > 0 {
		s.Push()
		for _, e := range extras {
			s.Assert(e)
		}
	}
	for _, w := range want {
		s.declare(w)
	}
	s.send("(check-sat)")
	out := strings.TrimSpace(s.exchange())
	first := out
	if i := strings.IndexByte(out, '\n'); i >= 0 {
		first = strings.TrimSpace(out[:i])
	}
	var res Result
	switch {
	case first == "sat" && !strings.Contains(out, "(error"):
		res = Sat
		s.NSat++
	case first == "unsat" && !strings.Contains(out, "(error"):
		res = Unsat
		s.NUnsat++
	default:
		res = Unknown
		s.NUnknown++
		if first != "unknown" && len(s.Errors) < 20 {
			s.Errors = append(s.Errors, firstN(out, 300))
		}
	}
	var model map[string]uint64
	if res == Sat && len(want) > 0 {
		model = map[string]uint64{}
		for i := 0; i < len(want) && res == Sat; i += 64 {
			j := i + 64
			if j > len(want) {
				j = len(want)
			}
			var sb strings.Builder
			sb.WriteString("(get-value (")
			for _, w := range want[i:j] {
				sb.WriteString(w.String())
				sb.WriteByte(' ')
			}
			sb.WriteString("))")
			s.send(sb.String())
			resp := s.exchange()
			vals, ok := parseValues(resp, len(want[i:j]))
			if !ok || strings.Contains(resp, "(error") {
				if len(s.Errors) < 20 {
					s.Errors = append(s.Errors, "get-value: "+firstN(resp, 300))
				}
				res = Unknown
				s.NSat--
				s.NUnknown++
				break
			}
			for k, w := range want[i:j] {
				model[w.String()] = vals[k]
			}
		}
	}
	if len(extras) > 0 {
		s.Pop(1)
	}
	return res, model
}

func firstN(s string, n int) string {
	if len(s) > n {
		return s[:n]
	}
	return s
}

// ---------------------------------------------------------------------------------
// pipe backend

type pipeBackend struct {
	cmd *exec.Cmd
	in  io.WriteCloser
	w   *bufio.Writer
	out *bufio.Reader
}

func newPipe(argv []string) (*pipeBackend, error) {
	cmd := exec.Command(argv[0], argv[1:]...)
	in, err := cmd.StdinPipe()
	if err != nil {
		return nil, err
	}
	out, err := cmd.StdoutPipe()
	if err != nil {
		return nil, err
	}
	if err := cmd.Start(); err != nil {
		return nil, err
	}
	return &pipeBackend{cmd: cmd, in: in, w: bufio.NewWriterSize(in, 1<<16), out: bufio.NewReaderSize(out, 1<<16)}, nil
}

const doneMark = "@@done@@"

func (p *pipeBackend) eval(cmds string) string {
	p.w.WriteString(cmds)
	p.w.WriteString("(echo \"" + doneMark + "\")\n")
	p.w.Flush()
	var sb strings.Builder
	for {
		line, err := p.out.ReadString('\n')
		if strings.Contains(line, doneMark) {
			return sb.String()
		}
		sb.WriteString(line)
		if err != nil {
			sb.WriteString("(error \"solver pipe: " + err.Error() + "\")")
			return sb.String()
		}
	}
}

func (p *pipeBackend) close() {
	p.in.Close()
	p.cmd.Process.Kill()
	p.cmd.Wait()
}

// ---------------------------------------------------------------------------------
// parsing get-value responses

// parseValues extracts the n values of a get-value response ((t v) (t v) ...).
func parseValues(resp string, n int) ([]uint64, bool) {
	toks := tokenize(resp)
	pos := 0
	if pos >= len(toks) || toks[pos] != "(" {
		return nil, false
	}
	pos++
	var out []uint64
	for pos < len(toks) && toks[pos] == "(" {
		pos++
		pos = skipSexp(toks, pos)
		if pos < 0 {
			return nil, false
		}
		end := skipSexp(toks, pos)
		if end < 0 {
			return nil, false
		}
		v, ok := parseValue(toks[pos:end])
		if !ok {
			return nil, false
		}
		out = append(out, v)
		pos = end
		if pos >= len(toks) || toks[pos] != ")" {
			return nil, false
		}
		pos++
	}
	return out, len(out) == n
}

func tokenize(s string) []string {
	var toks []string
	i := 0
	for i < len(s) {
		c := s[i]
		switch {
		case c == ' ' || c == '\n' || c == '\t' || c == '\r':
			i++
		case c == '(' || c == ')':
			toks = append(toks, string(c))
			i++
		case c == '|':
			j := i + 1
			for j < len(s) && s[j] != '|' {
				j++
			}
			toks = append(toks, s[i:j+1])
			i = j + 1
		default:
			j := i
			for j < len(s) && !strings.ContainsRune(" \n\t\r()", rune(s[j])) {
				j++
			}
			toks = append(toks, s[i:j])
			i = j
		}
	}
	return toks
}

func skipSexp(toks []string, pos int) int {
	if pos >= len(toks) {
		return -1
	}
	if toks[pos] != "(" {
		return pos + 1
	}
	depth := 0
	for i := pos; i < len(toks); i++ {
		switch toks[i] {
		case "(":
			depth++
		case ")":
			depth--
			if depth == 0 {
				return i + 1
			}
		}
	}
	return -1
}

func parseValue(toks []string) (uint64, bool) {
	if len(toks) == 1 {
		t := toks[0]
		switch {
		case t == "true":
			return 1, true
		case t == "false":
			return 0, true
		case strings.HasPrefix(t, "#x"):
			v, err := strconv.ParseUint(t[2:], 16, 64)
			return v, err == nil
		case strings.HasPrefix(t, "#b"):
			v, err := strconv.ParseUint(t[2:], 2, 64)
			return v, err == nil
		}
		return 0, false
	}
	if len(toks) == 5 && toks[0] == "(" && toks[1] == "_" && strings.HasPrefix(toks[2], "bv") {
		v, err := strconv.ParseUint(toks[2][2:], 10, 64)
		return v, err == nil
	}
	return 0, false
}

// Raw sends SMT-LIB2 text after everything pending and returns the solver's output.
// Callers keep the assertion stack balanced themselves (push/pop inside the text).
func (s *Solver) Raw(cmds string) string {
	start := time.Now()
	defer func() { s.Time += time.Since(start) }()
	s.Queries++
	s.send(cmds)
	return s.exchange()
}
