package sym

/*
#cgo LDFLAGS: -lz3
#include <z3.h>
#include <stdlib.h>
#include <malloc.h>

// glibc trims and re-faults its heaps on every solver call otherwise (page faults are
// expensive in this sandbox).
static void tune_malloc(void) {
	mallopt(M_TRIM_THRESHOLD, 1 << 30);
	mallopt(M_MMAP_THRESHOLD, 1 << 30);
	mallopt(M_TOP_PAD, 64 << 20);
}

static void quiet_handler(Z3_context c, Z3_error_code e) { (void)c; (void)e; }
static void install_handler(Z3_context c) { Z3_set_error_handler(c, quiet_handler); }
*/
import "C"

import (
	"strconv"
	"unsafe"
)

// inproc is libz3 in-process, driven through the same SMT-LIB2 text protocol
// (Z3_eval_smtlib2_string); one context per worker.
type inproc struct {
	cfg C.Z3_config
	ctx C.Z3_context
}

func init() { C.tune_malloc() }

func newInproc(timeoutMs int) (*inproc, error) {
	cfg := C.Z3_mk_config()
	ctx := C.Z3_mk_context(cfg)
	C.install_handler(ctx)
	p := &inproc{cfg: cfg, ctx: ctx}
	p.eval("(set-option :timeout " + strconv.Itoa(timeoutMs) + ")")
	return p, nil
}

func (p *inproc) eval(cmds string) string {
	cs := C.CString(cmds)
	defer C.free(unsafe.Pointer(cs))
	return C.GoString(C.Z3_eval_smtlib2_string(p.ctx, cs))
}

func (p *inproc) close() {
	C.Z3_del_context(p.ctx)
	C.Z3_del_config(p.cfg)
}

// Z3Version reports the version of the linked libz3.
func Z3Version() string {
	var a, b, c, d C.uint
	C.Z3_get_version(&a, &b, &c, &d)
	return strconv.Itoa(int(a)) + "." + strconv.Itoa(int(b)) + "." + strconv.Itoa(int(c))
}
