package interp

import (
	"fmt"
	"os"
	"sort"
	"strings"

	"golang.org/x/tools/go/packages"
	"golang.org/x/tools/go/ssa"
	"golang.org/x/tools/go/ssa/ssautil"
)

// Load type-checks repoDir (module rootMod) with the overlay files injected and
// builds SSA for everything reachable. overlay maps absolute virtual paths under
// repoDir to file contents.
func Load(repoDir, rootMod string, overlay map[string][]byte) (*Program, error) {
	cfg := &packages.Config{
		Mode: packages.NeedName | packages.NeedFiles | packages.NeedCompiledGoFiles | packages.NeedImports |
			packages.NeedDeps | packages.NeedTypes | packages.NeedSyntax | packages.NeedTypesInfo | packages.NeedTypesSizes | packages.NeedModule,
		Dir:     repoDir,
		Overlay: overlay,
		Env:     append(os.Environ(), "GOFLAGS=-mod=mod", "GOPROXY=off", "GOSUMDB=off", "GOTOOLCHAIN=local", "CGO_ENABLED=0"),
		Tests:   false,
	}
	pkgs, err := packages.Load(cfg, "./...")
	if err != nil {
		return nil, err
	}
	var errs []string
	packages.Visit(pkgs, nil, func(p *packages.Package) {
		for _, e := range p.Errors {
			if strings.HasPrefix(p.PkgPath, rootMod) {
				errs = append(errs, e.Error())
			}
		}
	})
	if len(errs) > 0 {
		return nil, fmt.Errorf("BUILD-FAILED: %s", strings.Join(errs, "\n"))
	}
	prog, spkgs := ssautil.AllPackages(pkgs, ssa.BuilderMode(0))
	// build function bodies only where they are interpreted: the code under test and the
	// few pure stdlib packages run from their own SSA; everything else is reached
	// through intrinsics
	for _, sp := range prog.AllPackages() {
		path := sp.Pkg.Path()
		if strings.HasPrefix(path, rootMod) || interpretablePkgs[path] {
			sp.Build()
		}
	}
	p := &Program{Prog: prog, MainPkg: map[string]*ssa.Package{}, RootMod: rootMod, Known: map[string]bool{}}
	for i, sp := range spkgs {
		if sp == nil {
			return nil, fmt.Errorf("BUILD-FAILED: no SSA for %s", pkgs[i].PkgPath)
		}
		p.MainPkg[sp.Pkg.Path()] = sp
		p.PkgOrder = append(p.PkgOrder, sp.Pkg.Path())
	}
	sort.Strings(p.PkgOrder)
	return p, nil
}

var interpretablePkgs = map[string]bool{"sort": true, "errors": true, "math/bits": true, "internal/reflectlite": true, "slices": true, "cmp": true}
