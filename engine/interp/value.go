// Package interp is the symbolic executor of gosym: it interprets go/ssa functions
// over values that are either concrete or SMT terms, forking at symbolic branches by
// re-execution along a decision trail.
package interp

import (
	"fmt"
	"go/types"
	"strconv"
	"strings"

	"golang.org/x/tools/go/ssa"
	"verif/engine/sym"
)

// Value is one of:
//
//	bool | *sym.Term (Bool)                        booleans
//	int64 | *sym.Term (BV n)                       integers of every kind (normalised to their type)
//	float64 | *sym.Term (BV 64, bit pattern)       floats
//	string | *SStr                                 strings
//	*Value                                         pointers (nil pointer: (*Value)(nil))
//	[]Value                                        slices
//	Array, Struct, Tuple                           aggregates
//	*Map                                           maps
//	Iface                                          interfaces
//	*ssa.Function, *Closure, *ssa.Builtin          functions
//	*mapIter, *strIter                             range iterators
//	*Native                                        engine-owned objects behind stdlib types
type Value interface{}

type Tuple []Value
type Array []Value
type Struct []Value

type Iface struct {
	T types.Type // nil: nil interface
	V Value
}

type Closure struct {
	Fn  *ssa.Function
	Env []Value
}

// Native boxes an engine object that stands for a value of a stdlib type
// (tabwriter.Writer, strconv.NumError, ...).
type Native struct {
	Kind string
	X    interface{}
}

// Opaque is a piece of a string whose bytes are unknown to the engine (rendering of a
// symbolic number, result of an unmodelled callee).
type Opaque struct {
	ID       int
	NonEmpty bool
	What     string
}

// SStr is a string with a concrete number of pieces; each piece is a concrete byte
// (int64), a symbolic byte (*sym.Term of width 8) or an *Opaque segment.
type SStr struct {
	B []Value
}

func (s *SStr) hasOpaque() bool {
	for _, b := range s.B {
		if _, ok := b.(*Opaque); ok {
			return true
		}
	}
	return false
}

// strPieces returns the pieces of a string value.
func strPieces(v Value) []Value {
	switch s := v.(type) {
	case string:
		out := make([]Value, len(s))
		for i := 0; i < len(s); i++ {
			out[i] = int64(s[i])
		}
		return out
	case *SStr:
		return s.B
	}
	panic(fmt.Sprintf("strPieces: not a string: %T", v))
}

// mkStr normalises pieces to a string value (Go string when fully concrete).
func mkStr(p []Value) Value {
	conc := true
	for _, b := range p {
		if _, ok := b.(int64); !ok {
			conc = false
			break
		}
	}
	if conc {
		bs := make([]byte, len(p))
		for i, b := range p {
			bs[i] = byte(b.(int64))
		}
		return string(bs)
	}
	return &SStr{B: p}
}

func isConcreteStr(v Value) bool {
	_, ok := v.(string)
	return ok
}

// ---------------------------------------------------------------------------------

type mapEntry struct {
	k, v Value
}

// Map keeps insertion order; lookups with symbolic string keys fork.
type Map struct {
	KeyT    types.Type
	Entries []*mapEntry
	ptrIdx  map[*Value]int // fast path for pointer keys
	strIdx  map[string]int // fast path for concrete string keys (only when all keys concrete)
	allConc bool
}

func newMap(keyT types.Type) *Map {
	return &Map{KeyT: keyT, ptrIdx: map[*Value]int{}, strIdx: map[string]int{}, allConc: true}
}

type mapIter struct {
	m     *Map
	order []int
	pos   int
	keys  []Value // snapshot of keys
	ents  []*mapEntry
}

type strIter struct {
	s   Value
	pos int
}

// ---------------------------------------------------------------------------------
// zero values and copying

func zero(t types.Type) Value {
	switch t := t.(type) {
	case *types.Basic:
		switch {
		case t.Info()&types.IsBoolean != 0:
			return false
		case t.Info()&types.IsInteger != 0:
			return int64(0)
		case t.Info()&types.IsFloat != 0:
			return float64(0)
		case t.Info()&types.IsString != 0:
			return ""
		case t.Kind() == types.UnsafePointer:
			return (*Value)(nil)
		case t.Kind() == types.UntypedNil:
			panic("zero of untyped nil")
		}
		panic(fmt.Sprintf("zero: unsupported basic type %v", t))
	case *types.Pointer:
		return (*Value)(nil)
	case *types.Array:
		a := make(Array, t.Len())
		for i := range a {
			a[i] = zero(t.Elem())
		}
		return a
	case *types.Named:
		return zero(t.Underlying())
	case *types.Alias:
		return zero(types.Unalias(t))
	case *types.Interface:
		return Iface{}
	case *types.Slice:
		return []Value(nil)
	case *types.Struct:
		s := make(Struct, t.NumFields())
		for i := range s {
			s[i] = zero(t.Field(i).Type())
		}
		return s
	case *types.Tuple:
		if t.Len() == 1 {
			return zero(t.At(0).Type())
		}
		s := make(Tuple, t.Len())
		for i := range s {
			s[i] = zero(t.At(i).Type())
		}
		return s
	case *types.Chan:
		return (*Native)(nil)
	case *types.Map:
		return (*Map)(nil)
	case *types.Signature:
		return (*ssa.Function)(nil)
	}
	panic(fmt.Sprintf("zero: unexpected type %T %v", t, t))
}

// copyVal copies aggregates (value semantics of arrays and structs).
func copyVal(v Value) Value {
	switch v := v.(type) {
	case Array:
		a := make(Array, len(v))
		for i, x := range v {
			a[i] = copyVal(x)
		}
		return a
	case Struct:
		a := make(Struct, len(v))
		for i, x := range v {
			a[i] = copyVal(x)
		}
		return a
	}
	return v
}

// ---------------------------------------------------------------------------------
// rendering (for observations, samples and debugging)

func (m *Machine) render(v Value, env map[string]uint64) string {
	switch v := v.(type) {
	case nil:
		return "<nil>"
	case bool:
		return strconv.FormatBool(v)
	case int64:
		return strconv.FormatInt(v, 10)
	case float64:
		return strconv.FormatFloat(v, 'g', -1, 64)
	case *sym.Term:
		if env == nil {
			return v.String()
		}
		x := v.Eval(env)
		if v.W == 0 {
			return strconv.FormatBool(x != 0)
		}
		if v.W == 8 {
			return strconv.FormatUint(x, 10)
		}
		return strconv.FormatInt(sextTo64(v.W, x), 10)
	case string:
		return strconv.Quote(v)
	case *SStr:
		if env == nil {
			var sb strings.Builder
			sb.WriteString("sym\"")
			for _, b := range v.B {
				switch b := b.(type) {
				case int64:
					q := strconv.Quote(string([]byte{byte(b)}))
					sb.WriteString(q[1 : len(q)-1])
				case *sym.Term:
					sb.WriteString("{" + b.String() + "}")
				case *Opaque:
					sb.WriteString("{opaque:" + b.What + "}")
				}
			}
			sb.WriteString("\"")
			return sb.String()
		}
		bs := make([]byte, 0, len(v.B))
		for _, b := range v.B {
			switch b := b.(type) {
			case int64:
				bs = append(bs, byte(b))
			case *sym.Term:
				bs = append(bs, byte(b.Eval(env)))
			case *Opaque:
				bs = append(bs, []byte("<opaque>")...)
			}
		}
		return strconv.Quote(string(bs))
	case []Value:
		var sb strings.Builder
		sb.WriteString("[")
		for i, x := range v {
			if i > 0 {
				sb.WriteString(" ")
			}
			sb.WriteString(m.render(x, env))
		}
		sb.WriteString("]")
		return sb.String()
	case Struct:
		var sb strings.Builder
		sb.WriteString("{")
		for i, x := range v {
			if i > 0 {
				sb.WriteString(" ")
			}
			sb.WriteString(m.render(x, env))
		}
		sb.WriteString("}")
		return sb.String()
	case Array:
		return m.render([]Value(v), env)
	case Iface:
		if v.T == nil {
			return "<nil>"
		}
		return m.render(v.V, env)
	case *Value:
		if v == nil {
			return "<nilptr>"
		}
		return "&" + m.render(*v, env)
	case Tuple:
		return m.render([]Value(v), env)
	}
	return fmt.Sprintf("<%T>", v)
}

func sextTo64(w int, x uint64) int64 {
	if w >= 64 {
		return int64(x)
	}
	s := uint(64 - w)
	return int64(x<<s) >> s
}
