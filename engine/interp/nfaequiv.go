package interp

import (
	"fmt"
	"strings"
)

// nfaEquiv decides language equivalence of two NFAs (transitions as triples
// from,label,to; state 0 initial) with the SMT solver: the product of the two subset
// constructions is a deterministic transition system over pairs of bit-vectors; the
// invariant "both state sets agree on acceptance" is proved by k-induction (base case:
// bounded model checking to depth k from the initial pair; step case: k+1 consecutive
// good, pairwise distinct pairs are followed by a good pair). Returns (equivalent,
// k used, decided).
func (m *Machine) nfaEquiv(na int, ta []int, fa []int, nb int, tb []int, fb []int, nlabels int) (bool, int, bool) {
	if nlabels == 0 {
		nlabels = 1
	}
	mask := func(f []int) uint64 {
		var o uint64
		for _, x := range f {
			o |= 1 << uint(x)
		}
		return o
	}
	bv := func(w int, v uint64) string { return fmt.Sprintf("(_ bv%d %d)", v, w) }
	// successor masks per (state, label)
	succ := func(t []int, n int) [][]uint64 {
		s := make([][]uint64, n)
		for i := range s {
			s[i] = make([]uint64, nlabels)
		}
		for i := 0; i+2 < len(t); i += 3 {
			s[t[i]][t[i+1]] |= 1 << uint(t[i+2])
		}
		return s
	}
	sa, sb := succ(ta, na), succ(tb, nb)
	// step function as a define-fun: OR over (state bit set, label == l) of the successor mask
	stepDef := func(name string, n int, s [][]uint64) string {
		var terms []string
		for i := 0; i < n; i++ {
			for l := 0; l < nlabels; l++ {
				if s[i][l] == 0 {
					continue
				}
				terms = append(terms, fmt.Sprintf("(ite (and (= ((_ extract %d %d) S) #b1) (= L %s)) %s %s)", i, i, bv(8, uint64(l)), bv(n, s[i][l]), bv(n, 0)))
			}
		}
		body := bv(n, 0)
		for _, t := range terms {
			body = "(bvor " + body + " " + t + ")"
		}
		return fmt.Sprintf("(define-fun %s ((S (_ BitVec %d)) (L (_ BitVec 8))) (_ BitVec %d) %s)", name, n, n, body)
	}
	var sb2 strings.Builder
	sb2.WriteString("(push 1)\n")
	sb2.WriteString(stepDef("stepA", na, sa) + "\n")
	sb2.WriteString(stepDef("stepB", nb, sb) + "\n")
	sb2.WriteString(fmt.Sprintf("(define-fun good ((A (_ BitVec %d)) (B (_ BitVec %d))) Bool (= (not (= (bvand A %s) %s)) (not (= (bvand B %s) %s))))\n",
		na, nb, bv(na, mask(fa)), bv(na, 0), bv(nb, mask(fb)), bv(nb, 0)))
	m.Solver.Raw(sb2.String())
	defer m.Solver.Raw("(pop 1)")
	declared := -1
	declare := func(upto int) {
		var d strings.Builder
		for t := declared + 1; t <= upto; t++ {
			d.WriteString(fmt.Sprintf("(declare-const nA%d (_ BitVec %d))(declare-const nB%d (_ BitVec %d))(declare-const nL%d (_ BitVec 8))\n", t, na, t, nb, t))
			d.WriteString(fmt.Sprintf("(assert (bvult nL%d %s))\n", t, bv(8, uint64(nlabels))))
			if t > 0 {
				d.WriteString(fmt.Sprintf("(assert (= nA%d (stepA nA%d nL%d)))(assert (= nB%d (stepB nB%d nL%d)))\n", t, t-1, t-1, t, t-1, t-1))
			}
		}
		if d.Len() > 0 {
			m.Solver.Raw(d.String())
		}
		declared = upto
	}
	answer := func(out string) string {
		out = strings.TrimSpace(out)
		if i := strings.IndexByte(out, '\n'); i >= 0 {
			out = strings.TrimSpace(out[:i])
		}
		return out
	}
	for k := 0; k <= 24; k++ {
		declare(k + 1)
		// base: from the initial pair, some state within k steps is bad
		var q strings.Builder
		q.WriteString("(push 1)\n")
		q.WriteString(fmt.Sprintf("(assert (= nA0 %s))(assert (= nB0 %s))\n", bv(na, 1), bv(nb, 1)))
		q.WriteString("(assert (not (and")
		for t := 0; t <= k; t++ {
			q.WriteString(fmt.Sprintf(" (good nA%d nB%d)", t, t))
		}
		q.WriteString(")))\n(check-sat)\n(pop 1)\n")
		switch answer(m.Solver.Raw(q.String())) {
		case "sat":
			return false, k, true
		case "unsat":
		default:
			return false, k, false
		}
		// step: k+1 good pairwise-distinct pairs followed by a bad one
		q.Reset()
		q.WriteString("(push 1)\n")
		for t := 0; t <= k; t++ {
			q.WriteString(fmt.Sprintf("(assert (good nA%d nB%d))\n", t, t))
			for u := 0; u < t; u++ {
				q.WriteString(fmt.Sprintf("(assert (not (and (= nA%d nA%d) (= nB%d nB%d))))\n", t, u, t, u))
			}
		}
		q.WriteString(fmt.Sprintf("(assert (not (good nA%d nB%d)))\n(check-sat)\n(pop 1)\n", k+1, k+1))
		switch answer(m.Solver.Raw(q.String())) {
		case "unsat":
			return true, k, true
		case "sat":
		default:
			return false, k, false
		}
	}
	return false, 24, false
}
