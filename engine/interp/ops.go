package interp

import (
	"fmt"
	"go/token"
	"go/types"
	"math"
	"unicode/utf8"

	"golang.org/x/tools/go/ssa"
	"verif/engine/sym"
)

func basicOf(t types.Type) *types.Basic {
	b, _ := t.Underlying().(*types.Basic)
	return b
}

func intWidth(b *types.Basic) int {
	switch b.Kind() {
	case types.Int8, types.Uint8:
		return 8
	case types.Int16, types.Uint16:
		return 16
	case types.Int32, types.Uint32:
		return 32
	}
	return 64
}

func isUnsigned(b *types.Basic) bool { return b.Info()&types.IsUnsigned != 0 }

func normInt(b *types.Basic, x int64) int64 {
	switch b.Kind() {
	case types.Int8:
		return int64(int8(x))
	case types.Uint8:
		return int64(uint8(x))
	case types.Int16:
		return int64(int16(x))
	case types.Uint16:
		return int64(uint16(x))
	case types.Int32:
		return int64(int32(x))
	case types.Uint32:
		return int64(uint32(x))
	}
	return x
}

// intTerm lifts an integer value of basic type b to a term.
func (m *Machine) intTerm(b *types.Basic, v Value) *sym.Term {
	switch v := v.(type) {
	case *sym.Term:
		return v
	case int64:
		return m.Ctx.BV(intWidth(b), uint64(v))
	}
	panic(fmt.Sprintf("intTerm: %T", v))
}

func (m *Machine) boolTerm(v Value) *sym.Term {
	switch v := v.(type) {
	case *sym.Term:
		return v
	case bool:
		return m.Ctx.Bool(v)
	}
	panic(fmt.Sprintf("boolTerm: %T", v))
}

func (m *Machine) byteTerm(v Value) *sym.Term {
	switch v := v.(type) {
	case *sym.Term:
		return v
	case int64:
		return m.Ctx.BV(8, uint64(v))
	}
	panic(fmt.Sprintf("byteTerm: %T", v))
}

func (m *Machine) unop(instr *ssa.UnOp, x Value) Value {
	switch instr.Op {
	case token.MUL: // load
		p := x.(*Value)
		if p == nil {
			m.rtPanic("invalid memory address or nil pointer dereference")
		}
		return copyVal(*p)
	case token.NOT:
		switch x := x.(type) {
		case bool:
			return !x
		case *sym.Term:
			return m.Ctx.Not(x)
		}
	case token.SUB:
		switch x := x.(type) {
		case int64:
			return normInt(basicOf(instr.X.Type()), -x)
		case float64:
			return -x
		case *sym.Term:
			return m.Ctx.Neg(x)
		}
	case token.XOR:
		switch x := x.(type) {
		case int64:
			return normInt(basicOf(instr.X.Type()), ^x)
		case *sym.Term:
			return m.Ctx.BvNot(x)
		}
	case token.ARROW:
		m.unsupported("channel receive")
	}
	panic(fmt.Sprintf("unop %v on %T", instr.Op, x))
}

func (m *Machine) binop(op token.Token, t types.Type, x, y Value) Value {
	switch op {
	case token.EQL:
		return m.equals(t, x, y)
	case token.NEQ:
		switch e := m.equals(t, x, y).(type) {
		case bool:
			return !e
		case *sym.Term:
			return m.Ctx.Not(e)
		}
	}
	b := basicOf(t)
	if b == nil {
		panic(fmt.Sprintf("binop %v on type %v", op, t))
	}
	switch {
	case b.Info()&types.IsString != 0:
		switch op {
		case token.ADD:
			return m.strConcat(x, y)
		case token.LSS:
			return m.strLess(x, y)
		case token.GTR:
			return m.strLess(y, x)
		case token.LEQ:
			return m.not(m.strLess(y, x))
		case token.GEQ:
			return m.not(m.strLess(x, y))
		}
	case b.Info()&types.IsInteger != 0:
		return m.intBinop(op, b, x, y)
	case b.Info()&types.IsFloat != 0:
		xf, ok1 := x.(float64)
		yf, ok2 := y.(float64)
		if !ok1 || !ok2 {
			m.unsupported("arithmetic on symbolic float")
		}
		switch op {
		case token.ADD:
			return xf + yf
		case token.SUB:
			return xf - yf
		case token.MUL:
			return xf * yf
		case token.QUO:
			return xf / yf
		case token.LSS:
			return xf < yf
		case token.LEQ:
			return xf <= yf
		case token.GTR:
			return xf > yf
		case token.GEQ:
			return xf >= yf
		}
	case b.Info()&types.IsBoolean != 0:
		// only ==, != reach here and were handled
	}
	panic(fmt.Sprintf("binop %v on %v (%T, %T)", op, t, x, y))
}

func (m *Machine) not(v Value) Value {
	switch v := v.(type) {
	case bool:
		return !v
	case *sym.Term:
		return m.Ctx.Not(v)
	}
	panic("not")
}

func (m *Machine) intBinop(op token.Token, b *types.Basic, x, y Value) Value {
	xi, okx := x.(int64)
	yi, oky := y.(int64)
	uns := isUnsigned(b)
	w := intWidth(b)
	if okx && oky {
		switch op {
		case token.ADD:
			return normInt(b, xi+yi)
		case token.SUB:
			return normInt(b, xi-yi)
		case token.MUL:
			return normInt(b, xi*yi)
		case token.QUO:
			if yi == 0 {
				m.rtPanic("integer divide by zero")
			}
			if uns {
				return normInt(b, int64(uint64(xi)/uint64(yi)))
			}
			if yi == -1 {
				return normInt(b, -xi)
			}
			return normInt(b, xi/yi)
		case token.REM:
			if yi == 0 {
				m.rtPanic("integer divide by zero")
			}
			if uns {
				return normInt(b, int64(uint64(xi)%uint64(yi)))
			}
			if yi == -1 {
				return int64(0)
			}
			return normInt(b, xi%yi)
		case token.AND:
			return xi & yi
		case token.OR:
			return xi | yi
		case token.XOR:
			return normInt(b, xi^yi)
		case token.AND_NOT:
			return xi &^ yi
		case token.SHL:
			if yi < 0 {
				m.rtPanic("negative shift amount")
			}
			if yi >= 64 {
				return int64(0)
			}
			return normInt(b, xi<<uint(yi))
		case token.SHR:
			if yi < 0 {
				m.rtPanic("negative shift amount")
			}
			if uns {
				if yi >= 64 {
					return int64(0)
				}
				return normInt(b, int64(uint64(xi)>>uint(yi)))
			}
			if yi >= 64 {
				yi = 63
			}
			return normInt(b, xi>>uint(yi))
		case token.LSS:
			if uns {
				return uint64(xi) < uint64(yi)
			}
			return xi < yi
		case token.LEQ:
			if uns {
				return uint64(xi) <= uint64(yi)
			}
			return xi <= yi
		case token.GTR:
			if uns {
				return uint64(xi) > uint64(yi)
			}
			return xi > yi
		case token.GEQ:
			if uns {
				return uint64(xi) >= uint64(yi)
			}
			return xi >= yi
		}
		panic(fmt.Sprintf("intBinop %v", op))
	}
	c := m.Ctx
	xt := m.intTerm(b, x)
	var yt *sym.Term
	switch y := y.(type) {
	case *sym.Term:
		yt = y
		if yt.W != w { // shift counts may have another width
			yt = c.Zext(w, yt)
		}
	case int64:
		yt = c.BV(w, uint64(y))
	}
	switch op {
	case token.ADD:
		return c.Bin(sym.OpAdd, xt, yt)
	case token.SUB:
		return c.Bin(sym.OpSub, xt, yt)
	case token.MUL:
		return c.Bin(sym.OpMul, xt, yt)
	case token.QUO, token.REM:
		if !m.Branch(c.Not(c.Eq(yt, c.BV(w, 0)))) {
			m.rtPanic("integer divide by zero")
		}
		if uns {
			if op == token.QUO {
				return c.Bin(sym.OpUdiv, xt, yt)
			}
			return c.Bin(sym.OpUrem, xt, yt)
		}
		if op == token.QUO {
			return c.Bin(sym.OpSdiv, xt, yt)
		}
		return c.Bin(sym.OpSrem, xt, yt)
	case token.AND:
		return c.Bin(sym.OpBvAnd, xt, yt)
	case token.OR:
		return c.Bin(sym.OpBvOr, xt, yt)
	case token.XOR:
		return c.Bin(sym.OpBvXor, xt, yt)
	case token.AND_NOT:
		return c.Bin(sym.OpBvAnd, xt, c.BvNot(yt))
	case token.SHL:
		return c.Bin(sym.OpShl, xt, yt)
	case token.SHR:
		if uns {
			return c.Bin(sym.OpLshr, xt, yt)
		}
		return c.Bin(sym.OpAshr, xt, yt)
	case token.LSS:
		if uns {
			return c.Bin(sym.OpUlt, xt, yt)
		}
		return c.Bin(sym.OpSlt, xt, yt)
	case token.LEQ:
		if uns {
			return c.Bin(sym.OpUle, xt, yt)
		}
		return c.Bin(sym.OpSle, xt, yt)
	case token.GTR:
		if uns {
			return c.Bin(sym.OpUlt, yt, xt)
		}
		return c.Bin(sym.OpSlt, yt, xt)
	case token.GEQ:
		if uns {
			return c.Bin(sym.OpUle, yt, xt)
		}
		return c.Bin(sym.OpSle, yt, xt)
	}
	panic(fmt.Sprintf("intBinop(sym) %v", op))
}

// equals implements == ; the result is a bool or a Bool term.
func (m *Machine) equals(t types.Type, x, y Value) Value {
	switch x := x.(type) {
	case bool:
		switch y := y.(type) {
		case bool:
			return x == y
		case *sym.Term:
			return m.Ctx.Eq(m.Ctx.Bool(x), y)
		}
	case int64:
		switch y := y.(type) {
		case int64:
			return x == y
		case *sym.Term:
			return m.Ctx.Eq(m.Ctx.BV(y.W, uint64(x)), y)
		}
	case float64:
		switch y := y.(type) {
		case float64:
			return x == y
		case *sym.Term:
			return m.Ctx.Eq(m.Ctx.BV(64, math.Float64bits(x)), y)
		}
	case *sym.Term:
		switch y := y.(type) {
		case *sym.Term:
			return m.Ctx.Eq(x, y)
		case bool:
			return m.Ctx.Eq(x, m.Ctx.Bool(y))
		case int64:
			return m.Ctx.Eq(x, m.Ctx.BV(x.W, uint64(y)))
		case float64:
			return m.Ctx.Eq(x, m.Ctx.BV(64, math.Float64bits(y)))
		}
	case string, *SStr:
		return m.strEq(x, y)
	case *Value:
		return x == y.(*Value)
	case *Map:
		return x == y.(*Map)
	case *Native:
		yn, _ := y.(*Native)
		return x == yn
	case []Value:
		// only comparison with nil is legal
		return x == nil && y.([]Value) == nil
	case *ssa.Function:
		if yf, ok := y.(*ssa.Function); ok {
			return x == yf
		}
		return false
	case *Closure:
		if yc, ok := y.(*Closure); ok {
			return x == yc
		}
		return false
	case Iface:
		yi := y.(Iface)
		if x.T == nil || yi.T == nil {
			return x.T == nil && yi.T == nil
		}
		if !m.identical(x.T, yi.T) {
			return false
		}
		return m.equals(x.T, x.V, yi.V)
	case Struct:
		ys := y.(Struct)
		st := t.Underlying().(*types.Struct)
		var acc Value = true
		for i := range x {
			if st.Field(i).Name() == "_" {
				continue
			}
			acc = m.and(acc, m.equals(st.Field(i).Type(), x[i], ys[i]))
		}
		return acc
	case Array:
		ya := y.(Array)
		et := t.Underlying().(*types.Array).Elem()
		var acc Value = true
		for i := range x {
			acc = m.and(acc, m.equals(et, x[i], ya[i]))
		}
		return acc
	}
	panic(fmt.Sprintf("equals: %T vs %T (type %v)", x, y, t))
}

func (m *Machine) and(a, b Value) Value {
	if ab, ok := a.(bool); ok {
		if !ab {
			return false
		}
		return b
	}
	if bb, ok := b.(bool); ok {
		if !bb {
			return false
		}
		return a
	}
	return m.Ctx.And(a.(*sym.Term), b.(*sym.Term))
}

func (m *Machine) or(a, b Value) Value {
	if ab, ok := a.(bool); ok {
		if ab {
			return true
		}
		return b
	}
	if bb, ok := b.(bool); ok {
		if bb {
			return true
		}
		return a
	}
	return m.Ctx.Or(a.(*sym.Term), b.(*sym.Term))
}

// ---------------------------------------------------------------------------------
// strings

func (m *Machine) strLen(s Value) int64 {
	switch s := s.(type) {
	case string:
		return int64(len(s))
	case *SStr:
		if s.hasOpaque() {
			m.unsupported("len of a string with opaque content")
		}
		return int64(len(s.B))
	}
	panic(fmt.Sprintf("strLen: %T", s))
}

func (m *Machine) strConcat(x, y Value) Value {
	if xs, ok := x.(string); ok {
		if ys, ok := y.(string); ok {
			return xs + ys
		}
	}
	px, py := strPieces(x), strPieces(y)
	out := make([]Value, 0, len(px)+len(py))
	out = append(out, px...)
	out = append(out, py...)
	return mkStr(out)
}

func (m *Machine) byteEq(a, b Value) Value {
	ai, oka := a.(int64)
	bi, okb := b.(int64)
	if oka && okb {
		return ai == bi
	}
	return m.Ctx.Eq(m.byteTerm(a), m.byteTerm(b))
}

func (m *Machine) strEq(x, y Value) Value {
	if xs, ok := x.(string); ok {
		if ys, ok := y.(string); ok {
			return xs == ys
		}
	}
	px, py := strPieces(x), strPieces(y)
	opq := false
	for _, b := range px {
		if _, ok := b.(*Opaque); ok {
			opq = true
		}
	}
	for _, b := range py {
		if _, ok := b.(*Opaque); ok {
			opq = true
		}
	}
	if opq {
		return m.opaqueEq(px, py)
	}
	if len(px) != len(py) {
		return false
	}
	var acc Value = true
	for i := range px {
		acc = m.and(acc, m.byteEq(px[i], py[i]))
		if b, ok := acc.(bool); ok && !b {
			return false
		}
	}
	return acc
}

func (m *Machine) opaqueEq(px, py []Value) Value {
	// identical piece lists are equal; a list that must be non-empty differs from ""
	if len(px) == len(py) {
		same := true
		for i := range px {
			if px[i] != py[i] {
				same = false
				break
			}
		}
		if same {
			return true
		}
	}
	nonEmpty := func(p []Value) bool {
		for _, b := range p {
			if o, ok := b.(*Opaque); ok {
				if o.NonEmpty {
					return true
				}
			} else {
				return true
			}
		}
		return false
	}
	if len(px) == 0 && nonEmpty(py) || len(py) == 0 && nonEmpty(px) {
		return false
	}
	m.unsupported("comparison of strings with opaque content")
	return false
}

func (m *Machine) strLess(x, y Value) Value {
	if xs, ok := x.(string); ok {
		if ys, ok := y.(string); ok {
			return xs < ys
		}
	}
	px, py := strPieces(x), strPieces(y)
	n := len(px)
	if len(py) < n {
		n = len(py)
	}
	// result = OR_i (prefix equal up to i and x[i] < y[i]) or (all n equal and len(x) < len(y))
	var res Value = len(px) < len(py)
	for i := n - 1; i >= 0; i-- {
		if _, ok := px[i].(*Opaque); ok {
			m.unsupported("ordering of strings with opaque content")
		}
		if _, ok := py[i].(*Opaque); ok {
			m.unsupported("ordering of strings with opaque content")
		}
		xt, yt := m.byteTerm(px[i]), m.byteTerm(py[i])
		lt := m.Ctx.Bin(sym.OpUlt, xt, yt)
		eq := m.Ctx.Eq(xt, yt)
		rest := m.boolTerm(res)
		r := m.Ctx.Or(lt, m.Ctx.And(eq, rest))
		if r.Op == sym.OpConst {
			res = r.K != 0
		} else {
			res = r
		}
	}
	return res
}

func (m *Machine) strIndex(s Value, idx Value) Value {
	i := m.asInt(idx)
	n := m.strLen(s)
	if i < 0 || i >= n {
		m.rtPanic(fmt.Sprintf("index out of range [%d] with length %d", i, n))
	}
	switch s := s.(type) {
	case string:
		return int64(s[i])
	case *SStr:
		return s.B[i]
	}
	panic("strIndex")
}

func (m *Machine) strSlice(s Value, lo, hi int64) Value {
	switch s := s.(type) {
	case string:
		return s[lo:hi]
	case *SStr:
		return mkStr(s.B[lo:hi:hi])
	}
	panic("strSlice")
}

func (m *Machine) slice(instr *ssa.Slice, x, lo, hi, max Value) Value {
	var ln, cp int64
	switch x := x.(type) {
	case string, *SStr:
		ln = m.strLen(x)
		cp = ln
	case []Value:
		ln, cp = int64(len(x)), int64(cap(x))
	case *Value:
		if x == nil {
			m.rtPanic("invalid memory address or nil pointer dereference")
		}
		a := (*x).(Array)
		ln, cp = int64(len(a)), int64(len(a))
	}
	l := int64(0)
	if lo != nil {
		l = m.asInt(lo)
	}
	h := ln
	if hi != nil {
		h = m.asInt(hi)
	}
	mx := cp
	if max != nil {
		mx = m.asInt(max)
	}
	_, isStr := x.(string)
	if _, ok := x.(*SStr); ok {
		isStr = true
	}
	bound := cp
	if isStr {
		bound = ln
	}
	if l < 0 || h < l || h > bound || mx < h || mx > cp {
		if h > bound || h < 0 {
			m.rtPanic(fmt.Sprintf("slice bounds out of range [:%d] with capacity %d", h, bound))
		}
		m.rtPanic(fmt.Sprintf("slice bounds out of range [%d:%d]", l, h))
	}
	switch x := x.(type) {
	case string, *SStr:
		return m.strSlice(x, l, h)
	case []Value:
		if x == nil {
			return []Value(nil)
		}
		return x[l:h:mx]
	case *Value:
		return []Value((*x).(Array))[l:h:mx]
	}
	panic(fmt.Sprintf("slice of %T", x))
}

// ---------------------------------------------------------------------------------
// conversions

func (m *Machine) conv(dst, src types.Type, x Value) Value {
	ud, us := dst.Underlying(), src.Underlying()
	switch us := us.(type) {
	case *types.Pointer:
		return x
	case *types.Slice:
		// []byte / []rune -> string
		if db, ok := ud.(*types.Basic); ok && db.Info()&types.IsString != 0 {
			eb := basicOf(us.Elem())
			if eb != nil && eb.Kind() == types.Uint8 {
				xs := x.([]Value)
				out := make([]Value, len(xs))
				copy(out, xs)
				return mkStr(out)
			}
			if eb != nil && eb.Kind() == types.Int32 {
				xs := x.([]Value)
				var bs []byte
				for _, r := range xs {
					ri, ok := r.(int64)
					if !ok {
						m.unsupported("string([]rune) with symbolic runes")
					}
					bs = utf8.AppendRune(bs, rune(ri))
				}
				return string(bs)
			}
		}
		return x
	case *types.Basic:
		db, ok := ud.(*types.Basic)
		if !ok {
			// string -> []byte / []rune
			if sl, ok := ud.(*types.Slice); ok && us.Info()&types.IsString != 0 {
				eb := basicOf(sl.Elem())
				if eb.Kind() == types.Uint8 {
					p := strPieces(x)
					out := make([]Value, len(p))
					copy(out, p)
					return out
				}
				if s, ok := x.(string); ok {
					var out []Value
					for _, r := range s {
						out = append(out, int64(r))
					}
					return out
				}
				m.unsupported("[]rune(symbolic string)")
			}
			panic(fmt.Sprintf("conv %v -> %v", src, dst))
		}
		switch {
		case us.Info()&types.IsString != 0 && db.Info()&types.IsString != 0:
			return x
		case us.Info()&types.IsInteger != 0 && db.Info()&types.IsString != 0:
			switch x := x.(type) {
			case int64:
				return string(rune(x))
			case *sym.Term:
				// ASCII stays one byte; anything else is not modelled
				lim := m.Ctx.BV(x.W, 0x80)
				if m.Branch(m.Ctx.Bin(sym.OpUlt, x, lim)) {
					return mkStr([]Value{m.Ctx.Extract(7, 0, x)})
				}
				m.unsupported("string(rune) of a symbolic non-ASCII value")
			}
		case us.Info()&types.IsInteger != 0 && db.Info()&types.IsInteger != 0:
			switch x := x.(type) {
			case int64:
				return normInt(db, x)
			case *sym.Term:
				wd := intWidth(db)
				if wd <= x.W {
					return m.Ctx.Extract(wd-1, 0, x)
				}
				if isUnsigned(us) {
					return m.Ctx.Zext(wd, x)
				}
				return m.Ctx.Sext(wd, x)
			}
		case us.Info()&types.IsInteger != 0 && db.Info()&types.IsFloat != 0:
			if xi, ok := x.(int64); ok {
				if isUnsigned(us) {
					return float64(uint64(xi))
				}
				return float64(xi)
			}
			m.unsupported("float(symbolic int)")
		case us.Info()&types.IsFloat != 0 && db.Info()&types.IsInteger != 0:
			if xf, ok := x.(float64); ok {
				return normInt(db, int64(xf))
			}
			m.unsupported("int(symbolic float)")
		case us.Info()&types.IsFloat != 0 && db.Info()&types.IsFloat != 0:
			if xf, ok := x.(float64); ok {
				if db.Kind() == types.Float32 {
					return float64(float32(xf))
				}
				return xf
			}
			return x
		case us.Info()&types.IsBoolean != 0:
			return x
		case us.Kind() == types.UnsafePointer || db.Kind() == types.UnsafePointer:
			m.unsupported("unsafe conversion")
		}
	}
	panic(fmt.Sprintf("conv: unsupported %v -> %v (%T)", src, dst, x))
}

// ---------------------------------------------------------------------------------
// maps

func (m *Machine) mapFind(mp *Map, k Value) *mapEntry {
	switch k := k.(type) {
	case *Value:
		if i, ok := mp.ptrIdx[k]; ok {
			return mp.Entries[i]
		}
		return nil
	case string:
		if mp.allConc {
			if i, ok := mp.strIdx[k]; ok {
				return mp.Entries[i]
			}
			return nil
		}
	}
	for _, e := range mp.Entries {
		eq := m.equals(mp.KeyT, e.k, k)
		switch eq := eq.(type) {
		case bool:
			if eq {
				return e
			}
		case *sym.Term:
			if m.Branch(eq) {
				return e
			}
		}
	}
	return nil
}

func (m *Machine) mapSet(mp *Map, k, v Value) {
	if e := m.mapFind(mp, k); e != nil {
		e.v = v
		return
	}
	mp.Entries = append(mp.Entries, &mapEntry{k, v})
	switch k := k.(type) {
	case *Value:
		mp.ptrIdx[k] = len(mp.Entries) - 1
	case string:
		mp.strIdx[k] = len(mp.Entries) - 1
	default:
		mp.allConc = false
	}
}

func (m *Machine) mapDelete(mp *Map, k Value) {
	e := m.mapFind(mp, k)
	if e == nil {
		return
	}
	idx := -1
	for i, x := range mp.Entries {
		if x == e {
			idx = i
		}
	}
	mp.Entries = append(mp.Entries[:idx:idx], mp.Entries[idx+1:]...)
	mp.ptrIdx = map[*Value]int{}
	mp.strIdx = map[string]int{}
	for i, x := range mp.Entries {
		switch k := x.k.(type) {
		case *Value:
			mp.ptrIdx[k] = i
		case string:
			mp.strIdx[k] = i
		}
	}
}

func (m *Machine) lookup(instr *ssa.Lookup, x, idx Value) Value {
	switch x := x.(type) {
	case string, *SStr:
		return m.strIndex(x, idx)
	case *Map:
		mt := instr.X.Type().Underlying().(*types.Map)
		var e *mapEntry
		if x != nil {
			e = m.mapFind(x, idx)
		}
		var v Value
		if e != nil {
			v = copyVal(e.v)
		} else {
			v = zero(mt.Elem())
		}
		if instr.CommaOk {
			return Tuple{v, e != nil}
		}
		return v
	}
	panic(fmt.Sprintf("lookup on %T", x))
}

func (m *Machine) rangeIter(x Value) Value {
	switch x := x.(type) {
	case *Map:
		it := &mapIter{m: x}
		if x == nil {
			return it
		}
		n := len(x.Entries)
		it.order = make([]int, n)
		for i := range it.order {
			it.order[i] = i
		}
		switch m.MapOrder {
		case 1:
			for i := 0; i < n/2; i++ {
				it.order[i], it.order[n-1-i] = it.order[n-1-i], it.order[i]
			}
		case 2:
			// explore orders: all permutations up to 3 entries, rotations + reversal above.
			// The product of the alternatives explored along one path is bounded (insertion
			// order once it is spent), so that code iterating maps in a loop cannot blow the
			// path count up.
			if n >= 2 {
				m.mapOrders++
			}
			alts := n + 1
			if n == 2 {
				alts = 2
			} else if n == 3 {
				alts = 6
			}
			if m.mapOrderProduct == 0 {
				m.mapOrderProduct = 1
			}
			if n >= 2 && m.mapOrderProduct*alts > 4000 {
				break
			}
			if n >= 2 {
				m.mapOrderProduct *= alts
			}
			if n >= 2 && n <= 3 {
				for i := 0; i < n-1; i++ {
					j := i + m.Choose(n-i)
					it.order[i], it.order[j] = it.order[j], it.order[i]
				}
			} else if n > 3 {
				r := m.Choose(n + 1)
				if r == n {
					for i := 0; i < n/2; i++ {
						it.order[i], it.order[n-1-i] = it.order[n-1-i], it.order[i]
					}
				} else {
					for i := range it.order {
						it.order[i] = (i + r) % n
					}
				}
			}
		}
		for _, e := range x.Entries {
			it.keys = append(it.keys, e.k)
			it.ents = append(it.ents, e)
		}
		return it
	case string, *SStr:
		return &strIter{s: x}
	}
	panic(fmt.Sprintf("range over %T", x))
}

func (m *Machine) next(it Value, instr *ssa.Next) Value {
	switch it := it.(type) {
	case *mapIter:
		for it.pos < len(it.order) {
			ent := it.ents[it.order[it.pos]]
			it.pos++
			// the entry may have been deleted meanwhile
			for _, e := range it.m.Entries {
				if e == ent {
					return Tuple{true, copyVal(e.k), copyVal(e.v)}
				}
			}
		}
		return Tuple{false, nil, nil}
	case *strIter:
		n := m.strLen(it.s)
		if int64(it.pos) >= n {
			return Tuple{false, int64(0), int64(0)}
		}
		if s, ok := it.s.(string); ok {
			r, sz := utf8.DecodeRuneInString(s[it.pos:])
			i := it.pos
			it.pos += sz
			return Tuple{true, int64(i), int64(r)}
		}
		b := it.s.(*SStr).B[it.pos]
		i := it.pos
		it.pos++
		switch b := b.(type) {
		case int64:
			if b < 0x80 {
				return Tuple{true, int64(i), b}
			}
		case *sym.Term:
			if m.Branch(m.Ctx.Bin(sym.OpUlt, b, m.Ctx.BV(8, 0x80))) {
				return Tuple{true, int64(i), m.Ctx.Zext(32, b)}
			}
		}
		m.unsupported("range over symbolic string with non-ASCII bytes")
	}
	panic(fmt.Sprintf("next on %T", it))
}

func isSameKey(a, b Value) bool {
	switch a := a.(type) {
	case string:
		bs, ok := b.(string)
		return ok && a == bs
	case *Value:
		bp, ok := b.(*Value)
		return ok && a == bp
	case int64:
		bi, ok := b.(int64)
		return ok && a == bi
	case *SStr:
		bs, ok := b.(*SStr)
		return ok && a == bs
	}
	return false
}

// ---------------------------------------------------------------------------------
// builtins

func (m *Machine) callBuiltin(caller *frame, fn *ssa.Builtin, args []Value, cc *ssa.CallCommon) Value {
	switch fn.Name() {
	case "append":
		if len(args) == 1 {
			return args[0]
		}
		x := args[0].([]Value)
		switch y := args[1].(type) {
		case []Value:
			if len(y) == 0 {
				return x
			}
			cp := make([]Value, len(y))
			for i, v := range y {
				cp[i] = copyVal(v)
			}
			return append(x, cp...)
		case string, *SStr:
			return append(x, strPieces(y)...)
		}
	case "copy":
		dst := args[0].([]Value)
		switch src := args[1].(type) {
		case []Value:
			n := len(src)
			if len(dst) < n {
				n = len(dst)
			}
			tmp := make([]Value, n)
			for i := 0; i < n; i++ {
				tmp[i] = copyVal(src[i])
			}
			copy(dst, tmp)
			return int64(n)
		case string, *SStr:
			p := strPieces(src)
			return int64(copy(dst, p))
		}
	case "len":
		switch x := args[0].(type) {
		case string, *SStr:
			return m.strLen(x)
		case []Value:
			return int64(len(x))
		case Array:
			return int64(len(x))
		case *Value:
			return int64(len((*x).(Array)))
		case *Map:
			if x == nil {
				return int64(0)
			}
			return int64(len(x.Entries))
		}
	case "cap":
		switch x := args[0].(type) {
		case []Value:
			return int64(cap(x))
		case Array:
			return int64(len(x))
		case *Value:
			return int64(len((*x).(Array)))
		}
	case "delete":
		if mp := args[0].(*Map); mp != nil {
			m.mapDelete(mp, args[1])
		}
		return nil
	case "panic":
		panic(targetPanic{args[0]})
	case "recover":
		return m.doRecover(caller)
	case "print", "println":
		return nil
	case "min", "max":
		acc, ok := args[0].(int64)
		if !ok {
			m.unsupported("min/max on non-concrete-int")
		}
		for _, a := range args[1:] {
			ai, ok := a.(int64)
			if !ok {
				m.unsupported("min/max on non-concrete-int")
			}
			if fn.Name() == "min" && ai < acc || fn.Name() == "max" && ai > acc {
				acc = ai
			}
		}
		return acc
	case "ssa:wrapnilchk":
		recv := args[0]
		if p, ok := recv.(*Value); ok && p == nil {
			m.rtPanic("value method called using nil pointer")
		}
		return recv
	}
	m.unsupported("builtin " + fn.Name())
	return nil
}

func (m *Machine) doRecover(caller *frame) Value {
	if caller != nil && !caller.panicking && caller.caller != nil && caller.caller.panicking {
		caller.caller.panicking = false
		p := caller.caller.panicV
		caller.caller.panicV = nil
		if tp, ok := p.(targetPanic); ok {
			return tp.v
		}
		panic(p)
	}
	return Iface{}
}
