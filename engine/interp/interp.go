package interp

import (
	"fmt"
	"go/constant"
	"go/token"
	"go/types"
	"strings"

	"golang.org/x/tools/go/ssa"
	"verif/engine/sym"
)

type deferred struct {
	fn   Value
	args []Value
	tail *deferred
}

type frame struct {
	m         *Machine
	caller    *frame
	fn        *ssa.Function
	fi        *funcInfo
	regs      []Value
	locals    []Value
	block     *ssa.BasicBlock
	prev      *ssa.BasicBlock
	defers    *deferred
	result    Value
	depth0    int
	spTop     int
	panicking bool
	panicV    interface{}
}

func (fr *frame) get(v ssa.Value) Value {
	switch v := v.(type) {
	case nil:
		return nil
	case *ssa.Const:
		return fr.m.constValue(v)
	case *ssa.Function:
		return v
	case *ssa.Builtin:
		return v
	case *ssa.Global:
		return fr.m.global(v)
	}
	if i, ok := fr.fi.idx[vptr(v)]; ok {
		return fr.regs[i]
	}
	panic(fmt.Sprintf("get: no register for %T %s in %s", v, v.Name(), fr.fn))
}

// arg fetches the k-th precompiled operand of an instruction.
func (fr *frame) arg(pi *pinstr, k int) Value {
	o := &pi.ops[k]
	switch o.kind {
	case opReg:
		return fr.regs[o.idx]
	case opConst:
		return o.val
	case opGlobal:
		return fr.m.global(o.g)
	case opZero:
		return zero(o.t)
	}
	return nil
}

func (fr *frame) setd(pi *pinstr, x Value) { fr.regs[pi.dst] = x }

func (fr *frame) set(v ssa.Value, x Value) {
	fr.regs[fr.fi.idx[vptr(v)]] = x
}

func (m *Machine) global(g *ssa.Global) *Value {
	if p, ok := m.globals[g]; ok {
		return p
	}
	p := new(Value)
	*p = zero(deref(g.Type()))
	m.globals[g] = p
	return p
}

func deref(t types.Type) types.Type {
	if p, ok := t.Underlying().(*types.Pointer); ok {
		return p.Elem()
	}
	panic(fmt.Sprintf("deref of non-pointer %v", t))
}

func (m *Machine) constValue(c *ssa.Const) Value {
	if v, ok := m.constC[c]; ok {
		return v
	}
	v := constValue0(c)
	m.constC[c] = v
	return v
}

func constValue0(c *ssa.Const) Value {
	if c.Value == nil {
		return zero(c.Type())
	}
	if t, ok := c.Type().Underlying().(*types.Basic); ok {
		switch {
		case t.Info()&types.IsBoolean != 0:
			return constant.BoolVal(c.Value)
		case t.Info()&types.IsInteger != 0:
			if t.Info()&types.IsUnsigned != 0 {
				u, _ := constant.Uint64Val(constant.ToInt(c.Value))
				return normInt(t, int64(u))
			}
			i, _ := constant.Int64Val(constant.ToInt(c.Value))
			return normInt(t, i)
		case t.Info()&types.IsFloat != 0:
			f, _ := constant.Float64Val(c.Value)
			return f
		case t.Info()&types.IsString != 0:
			if c.Value.Kind() == constant.String {
				return constant.StringVal(c.Value)
			}
			i, _ := constant.Int64Val(c.Value)
			return string(rune(i))
		}
	}
	panic(fmt.Sprintf("constValue: unsupported constant %v of type %v", c, c.Type()))
}

// initGlobals runs the package initialisers of the code under test.
func (m *Machine) initGlobals() {
	for _, path := range m.P.PkgOrder {
		pkg := m.P.MainPkg[path]
		if init := pkg.Func("init"); init != nil {
			m.call(init, nil)
		}
	}
}

func (m *Machine) inRoot(pkg *ssa.Package) bool {
	return pkg != nil && strings.HasPrefix(pkg.Pkg.Path(), m.P.RootMod)
}

// call invokes a function value.
func (m *Machine) call(fn Value, args []Value) Value {
	switch fn := fn.(type) {
	case *ssa.Function:
		if fn == nil {
			m.rtPanic("invalid memory address or nil pointer dereference (call of nil func)")
		}
		return m.callSSA(nil, fn, args, nil)
	case *Closure:
		return m.callSSA(nil, fn.Fn, args, fn.Env)
	case *ssa.Builtin:
		return m.callBuiltin(nil, fn, args, nil)
	}
	panic(fmt.Sprintf("call: cannot call %T", fn))
}

func (m *Machine) callFrom(caller *frame, fn Value, args []Value, cc *ssa.CallCommon) Value {
	switch fn := fn.(type) {
	case *ssa.Function:
		if fn == nil {
			m.rtPanic("invalid memory address or nil pointer dereference (call of nil func)")
		}
		return m.callSSA(caller, fn, args, nil)
	case *Closure:
		return m.callSSA(caller, fn.Fn, args, fn.Env)
	case *ssa.Builtin:
		return m.callBuiltin(caller, fn, args, cc)
	case *Native:
		switch fn.Kind {
		case "rterr.Error":
			return fn.X
		case "rterr.RuntimeError":
			return nil
		}
	}
	panic(fmt.Sprintf("call: cannot call %T", fn))
}

func (m *Machine) callSSA(caller *frame, fn *ssa.Function, args []Value, env []Value) Value {
	fi := m.P.info(fn)
	if fn.Synthetic == "package initializer" && !m.inRoot(fn.Pkg) {
		return nil
	}
	if fn.Blocks == nil || !m.inRoot(fn.Pkg) {
		if r, ok := m.intrinsic(caller, fn, fi, args); ok {
			return r
		}
		if fn.Blocks == nil {
			m.unsupported("no body and no intrinsic: " + fi.name)
		}
		if !m.interpretable(fn) {
			m.unsupported("stdlib callee without intrinsic: " + fi.name)
		}
	}
	m.depth++
	if m.depth > m.Stats.MaxDepth {
		m.Stats.MaxDepth = m.depth
	}
	if m.depth > m.DepthMax {
		m.limitFail("call depth exceeds " + fmt.Sprint(m.DepthMax) + " in " + fi.short)
	}
	if len(m.limDepth) > 0 || len(m.limCalls) > 0 {
		if mx, ok := m.limDepth[fi.short]; ok {
			m.curDepth[fi.short]++
			if m.curDepth[fi.short] > mx {
				m.limitFail(fmt.Sprintf("recursion depth of %s exceeds derived bound %d", fi.short, mx))
			}
			defer func() { m.curDepth[fi.short]-- }()
		}
		if mx, ok := m.limCalls[fi.short]; ok {
			m.curCalls[fi.short]++
			if m.curCalls[fi.short] > mx {
				m.limitFail(fmt.Sprintf("number of calls of %s exceeds derived bound %d", fi.short, mx))
			}
		}
	}
	if m.inRoot(fn.Pkg) && !m.Stats.Funcs[fi.name] {
		m.Stats.Funcs[fi.name] = true
	}
	fr := &frame{m: m, caller: caller, fn: fn, fi: fi, depth0: m.depth}
	// registers and non-escaping locals live on the machine's value stack
	need := fi.nregs + len(fn.Locals)
	sp0 := m.sp
	if sp0+need > len(m.vstack) {
		sz := 2 * len(m.vstack)
		if sz < 1<<14 {
			sz = 1 << 14
		}
		if sz < need {
			sz = 2 * need
		}
		m.vstack = make([]Value, sz) // older frames keep their slices of the old chunk
		sp0 = 0
	}
	fr.regs = m.vstack[sp0 : sp0+fi.nregs : sp0+fi.nregs]
	m.sp = sp0 + need
	fr.spTop = m.sp
	n := 0
	for range fn.Params {
		fr.regs[n] = args[n]
		n++
	}
	for i := range fn.FreeVars {
		fr.regs[n] = env[i]
		n++
	}
	if len(fn.Locals) > 0 {
		fr.locals = m.vstack[sp0+fi.nregs : sp0+need : sp0+need]
		for i := range fn.Locals {
			z := &fi.localZero[i]
			if z.kind == opConst {
				fr.locals[i] = z.val
			} else {
				fr.locals[i] = zero(z.t)
			}
			fr.regs[fi.localReg[i]] = &fr.locals[i]
		}
	}
	fr.block = fn.Blocks[0]
	for fr.block != nil {
		fr.run()
	}
	m.depth--
	// (after a chunk switch by a dead callee the new chunk holds no live frame: any index is free)
	m.sp = sp0
	return fr.result
}

// limitFail reports an unwinding-assertion failure with a model of the path.
func (m *Machine) limitFail(msg string) {
	m.failWith("limit", msg, nil)
	m.end("infeasible", "")
}

// run executes blocks until return; a target panic runs the deferred calls and either
// is recovered (jump to the recover block) or propagates.
func (fr *frame) run() {
	defer func() {
		if fr.block == nil {
			return // normal return
		}
		r := recover()
		if r == nil {
			return
		}
		if _, ok := r.(targetPanic); !ok {
			panic(r) // pathEnd or engine bug: never visible to the program
		}
		fr.panicking = true
		fr.panicV = r
		fr.m.depth = fr.depth0
		fr.m.sp = fr.spTop // the callees are dead
		fr.runDefers()
		// recovered
		if fr.fn.Recover != nil {
			fr.block = fr.fn.Recover
		} else {
			// function without named results: returns zero values
			fr.result = zeroResults(fr.fn)
			fr.block = nil
		}
	}()
	for {
		blk := fr.block
		code := fr.fi.code[blk.Index]
		for i, instr := range blk.Instrs {
			fr.m.steps++
			if fr.m.steps > fr.m.StepBudget {
				fr.m.limitFail(fmt.Sprintf("step budget %d exhausted in %s", fr.m.StepBudget, fr.fi.short))
			}
			switch fr.visit(instr, &code[i]) {
			case kReturn:
				return
			case kJump:
				goto next
			}
		}
		panic("block fell through")
	next:
		// phis of the new block
		nb := fr.block
		ncode := fr.fi.code[nb.Index]
		np := fr.fi.nphis[nb.Index]
		if np > 0 {
			edge := 0
			for i, p := range nb.Preds {
				if p == fr.prev {
					edge = i
					break
				}
			}
			if np == 1 {
				fr.regs[ncode[0].dst] = fr.arg(&ncode[0], edge)
			} else {
				tmp := make([]Value, np)
				for i := 0; i < np; i++ {
					tmp[i] = fr.arg(&ncode[i], edge)
				}
				for i := 0; i < np; i++ {
					fr.regs[ncode[i].dst] = tmp[i]
				}
			}
		}
	}
}

func zeroResults(fn *ssa.Function) Value {
	res := fn.Signature.Results()
	switch res.Len() {
	case 0:
		return nil
	case 1:
		return zero(res.At(0).Type())
	}
	t := make(Tuple, res.Len())
	for i := range t {
		t[i] = zero(res.At(i).Type())
	}
	return t
}

func (fr *frame) runDefer(d *deferred) {
	ok := false
	defer func() {
		if !ok {
			r := recover()
			if _, isT := r.(targetPanic); !isT {
				panic(r)
			}
			fr.panicking = true
			fr.panicV = r
		}
	}()
	fr.m.callFrom(fr, d.fn, d.args, nil)
	ok = true
}

func (fr *frame) runDefers() {
	for d := fr.defers; d != nil; d = d.tail {
		fr.runDefer(d)
	}
	fr.defers = nil
	if fr.panicking {
		panic(fr.panicV)
	}
}

type cont int

const (
	kNext cont = iota
	kReturn
	kJump
)

func (m *Machine) rtPanic(msg string) {
	m.Stats.RuntimeVCs++
	panic(targetPanic{Iface{T: m.runtimeErrorType(), V: "runtime error: " + msg}})
}

// runtimeErrorType is the dynamic type given to runtime errors raised by the engine.
func (m *Machine) runtimeErrorType() types.Type {
	if m.rtErrType == nil {
		pkg := types.NewPackage("runtime", "runtime")
		tn := types.NewTypeName(token.NoPos, pkg, "Error$engine", nil)
		m.rtErrType = types.NewNamed(tn, types.Typ[types.String], nil)
	}
	return m.rtErrType
}

// IsRuntimeError tells whether an interface value is an engine-raised runtime error.
func (m *Machine) IsRuntimeError(v Value) bool {
	i, ok := v.(Iface)
	return ok && i.T != nil && i.T == m.rtErrType
}

func (fr *frame) visit(instr ssa.Instruction, pi *pinstr) cont {
	m := fr.m
	switch instr := instr.(type) {
	case *ssa.DebugRef:

	case *ssa.UnOp:
		if m.trackGlobals && instr.Op == token.MUL {
			if g, ok := instr.X.(*ssa.Global); ok && m.inRoot(g.Pkg) && !m.isHarnessFn(fr.fn) {
				m.gLoads = appendUnique(m.gLoads, g.Name())
			}
		}
		fr.setd(pi, m.unop(instr, fr.arg(pi, 0)))

	case *ssa.BinOp:
		fr.setd(pi, m.binop(instr.Op, instr.X.Type(), fr.arg(pi, 0), fr.arg(pi, 1)))

	case *ssa.Call:
		fn, args := fr.prepareCall(&instr.Call, pi)
		fr.setd(pi, m.callFrom(fr, fn, args, &instr.Call))

	case *ssa.ChangeInterface:
		fr.setd(pi, fr.arg(pi, 0))

	case *ssa.ChangeType:
		fr.setd(pi, fr.arg(pi, 0))

	case *ssa.Convert:
		fr.setd(pi, m.conv(instr.Type(), instr.X.Type(), fr.arg(pi, 0)))

	case *ssa.MakeInterface:
		fr.setd(pi, Iface{T: instr.X.Type(), V: fr.arg(pi, 0)})

	case *ssa.Extract:
		fr.setd(pi, fr.arg(pi, 0).(Tuple)[instr.Index])

	case *ssa.Slice:
		fr.setd(pi, m.slice(instr, fr.arg(pi, 0), fr.arg(pi, 1), fr.arg(pi, 2), fr.arg(pi, 3)))

	case *ssa.Return:
		switch len(instr.Results) {
		case 0:
		case 1:
			fr.result = fr.arg(pi, 0)
		default:
			res := make(Tuple, len(instr.Results))
			for i := range instr.Results {
				res[i] = fr.arg(pi, i)
			}
			fr.result = res
		}
		fr.block = nil
		return kReturn

	case *ssa.RunDefers:
		fr.runDefers()

	case *ssa.Panic:
		panic(targetPanic{fr.arg(pi, 0)})

	case *ssa.Store:
		if g, ok := instr.Addr.(*ssa.Global); ok && m.trackGlobals && m.inRoot(g.Pkg) && !m.isHarnessFn(fr.fn) {
			m.gStores = append(m.gStores, g.Name())
		}
		p := fr.arg(pi, 0).(*Value)
		if m.trackGlobals && m.ownedCells[p] != "" && !m.isHarnessFn(fr.fn) {
			m.gStores = append(m.gStores, "(object reachable from) "+m.ownedCells[p])
		}
		if p == nil {
			m.rtPanic("invalid memory address or nil pointer dereference")
		}
		*p = copyVal(fr.arg(pi, 1))

	case *ssa.If:
		c := fr.arg(pi, 0)
		var b bool
		switch c := c.(type) {
		case bool:
			b = c
		case *sym.Term:
			b = m.Branch(c)
		default:
			panic(fmt.Sprintf("If on %T", c))
		}
		succ := 1
		if b {
			succ = 0
		}
		fr.prev, fr.block = fr.block, fr.block.Succs[succ]
		return kJump

	case *ssa.Jump:
		fr.prev, fr.block = fr.block, fr.block.Succs[0]
		return kJump

	case *ssa.Defer:
		fn, args := fr.prepareCall(&instr.Call, pi)
		fr.defers = &deferred{fn: fn, args: args, tail: fr.defers}

	case *ssa.Alloc:
		var addr *Value
		if instr.Heap {
			addr = new(Value)
			fr.setd(pi, addr)
		} else {
			addr = fr.regs[pi.dst].(*Value)
		}
		*addr = fr.arg(pi, 0)

	case *ssa.MakeSlice:
		ln := m.asInt(fr.arg(pi, 0))
		cp := m.asInt(fr.arg(pi, 1))
		if ln < 0 || cp < ln || cp > 1<<24 {
			m.rtPanic("makeslice: len out of range")
		}
		s := make([]Value, cp)
		et := instr.Type().Underlying().(*types.Slice).Elem()
		for i := range s {
			s[i] = zero(et)
		}
		fr.setd(pi, s[:ln])

	case *ssa.MakeMap:
		fr.setd(pi, newMap(instr.Type().Underlying().(*types.Map).Key()))

	case *ssa.Range:
		fr.setd(pi, m.rangeIter(fr.arg(pi, 0)))

	case *ssa.Next:
		fr.setd(pi, m.next(fr.arg(pi, 0), instr))

	case *ssa.FieldAddr:
		p := fr.arg(pi, 0).(*Value)
		if p == nil {
			m.rtPanic("invalid memory address or nil pointer dereference")
		}
		fr.setd(pi, &(*p).(Struct)[instr.Field])

	case *ssa.Field:
		fr.setd(pi, fr.arg(pi, 0).(Struct)[instr.Field])

	case *ssa.IndexAddr:
		x := fr.arg(pi, 0)
		idx := m.asInt(fr.arg(pi, 1))
		switch x := x.(type) {
		case []Value:
			if idx < 0 || idx >= int64(len(x)) {
				m.rtPanic(fmt.Sprintf("index out of range [%d] with length %d", idx, len(x)))
			}
			fr.setd(pi, &x[idx])
		case *Value:
			if x == nil {
				m.rtPanic("invalid memory address or nil pointer dereference")
			}
			a := (*x).(Array)
			if idx < 0 || idx >= int64(len(a)) {
				m.rtPanic(fmt.Sprintf("index out of range [%d] with length %d", idx, len(a)))
			}
			fr.setd(pi, &a[idx])
		default:
			panic(fmt.Sprintf("IndexAddr on %T", x))
		}

	case *ssa.Index:
		x := fr.arg(pi, 0)
		switch x := x.(type) {
		case Array:
			idx := m.asInt(fr.arg(pi, 1))
			if idx < 0 || idx >= int64(len(x)) {
				m.rtPanic(fmt.Sprintf("index out of range [%d] with length %d", idx, len(x)))
			}
			fr.setd(pi, x[idx])
		case string, *SStr:
			fr.setd(pi, m.strIndex(x, fr.arg(pi, 1)))
		default:
			panic(fmt.Sprintf("Index on %T", x))
		}

	case *ssa.Lookup:
		fr.setd(pi, m.lookup(instr, fr.arg(pi, 0), fr.arg(pi, 1)))

	case *ssa.MapUpdate:
		mp := fr.arg(pi, 0).(*Map)
		if mp == nil {
			m.rtPanic("assignment to entry in nil map")
		}
		if m.trackGlobals && m.ownedMaps[mp] != "" && !m.isHarnessFn(fr.fn) {
			m.gStores = append(m.gStores, "(map reachable from) "+m.ownedMaps[mp])
		}
		m.mapSet(mp, fr.arg(pi, 1), copyVal(fr.arg(pi, 2)))

	case *ssa.TypeAssert:
		fr.setd(pi, m.typeAssert(instr, fr.arg(pi, 0).(Iface)))

	case *ssa.MakeClosure:
		var env []Value
		for i := range instr.Bindings {
			env = append(env, fr.arg(pi, i))
		}
		fr.setd(pi, &Closure{Fn: instr.Fn.(*ssa.Function), Env: env})

	case *ssa.Phi:
		// handled at block entry

	default:
		m.unsupported(fmt.Sprintf("instruction %T", instr))
	}
	return kNext
}

func (fr *frame) prepareCall(cc *ssa.CallCommon, pi *pinstr) (Value, []Value) {
	v := fr.arg(pi, 0)
	var fn Value
	var args []Value
	if cc.Method == nil {
		fn = v
	} else {
		recv := v.(Iface)
		if recv.T == nil {
			fr.m.rtPanic("invalid memory address or nil pointer dereference (method on nil interface)")
		}
		if recv.T == fr.m.rtErrType {
			return &Native{Kind: "rterr." + cc.Method.Name(), X: recv.V}, nil
		}
		f := fr.m.P.Prog.LookupMethod(recv.T, cc.Method.Pkg(), cc.Method.Name())
		if f == nil {
			panic(fmt.Sprintf("no method %s on %v", cc.Method.Name(), recv.T))
		}
		fn = f
		args = append(args, recv.V)
	}
	if args == nil {
		args = make([]Value, 0, len(cc.Args))
	}
	for i := range cc.Args {
		args = append(args, fr.arg(pi, i+1))
	}
	return fn, args
}

// invoke calls method name on an interface value (used by intrinsics).
func (m *Machine) invoke(recv Iface, name string, args ...Value) Value {
	if recv.T == nil {
		m.rtPanic("invalid memory address or nil pointer dereference (method on nil interface)")
	}
	if recv.T == m.rtErrType && name == "Error" {
		return recv.V
	}
	ms := m.P.Prog.MethodSets.MethodSet(recv.T)
	for i := 0; i < ms.Len(); i++ {
		sel := ms.At(i)
		if sel.Obj().Name() == name {
			f := m.P.Prog.MethodValue(sel)
			if f == nil {
				break
			}
			return m.callSSA(nil, f, append([]Value{recv.V}, args...), nil)
		}
	}
	m.unsupported("invoke: no method " + name + " on " + recv.T.String())
	return nil
}

func (m *Machine) hasMethod(t types.Type, name string) bool {
	ms := m.P.Prog.MethodSets.MethodSet(t)
	for i := 0; i < ms.Len(); i++ {
		if ms.At(i).Obj().Name() == name {
			return true
		}
	}
	return false
}

// asInt returns a concrete integer, forking over the feasible values of a symbolic one.
func (m *Machine) asInt(v Value) int64 {
	switch v := v.(type) {
	case int64:
		return v
	case *sym.Term:
		return m.Concretise(v)
	case nil:
		return 0
	}
	panic(fmt.Sprintf("asInt: %T", v))
}

func (m *Machine) identical(a, b types.Type) bool {
	if a == b {
		return true
	}
	k := [2]types.Type{a, b}
	if v, ok := m.identC[k]; ok {
		return v
	}
	v := types.Identical(a, b)
	m.identC[k] = v
	return v
}

func (m *Machine) typeAssert(instr *ssa.TypeAssert, x Iface) Value {
	ok := false
	var v Value
	if it, isI := instr.AssertedType.Underlying().(*types.Interface); isI {
		if x.T != nil && x.T == m.rtErrType {
			// engine-raised runtime errors behave like runtime.Error values: they implement
			// error and runtime.Error
			ok = true
			for i := 0; i < it.NumMethods(); i++ {
				if n := it.Method(i).Name(); n != "Error" && n != "RuntimeError" {
					ok = false
				}
			}
		} else if x.T != nil {
			k := [2]types.Type{x.T, instr.AssertedType}
			impl, have := m.identC[k]
			if !have {
				impl = types.Implements(x.T, it)
				m.identC[k] = impl
			}
			ok = impl
		}
		if ok {
			v = x
		}
	} else {
		if x.T != nil && m.identical(x.T, instr.AssertedType) {
			ok = true
			v = x.V
		}
	}
	if instr.CommaOk {
		if !ok {
			v = zero(instr.AssertedType)
		}
		return Tuple{v, ok}
	}
	if !ok {
		if x.T == nil {
			m.rtPanic(fmt.Sprintf("interface conversion: interface is nil, not %v", instr.AssertedType))
		}
		m.rtPanic(fmt.Sprintf("interface conversion: interface is %v, not %v", x.T, instr.AssertedType))
	}
	return v
}

// interpretable: stdlib functions that may be run from their SSA (pure, no package
// state).
func (m *Machine) interpretable(fn *ssa.Function) bool {
	if fn.Pkg == nil {
		// synthetic wrappers, bound methods, instantiations
		if fn.Synthetic != "" {
			return true
		}
		return false
	}
	return interpretablePkgs[fn.Pkg.Pkg.Path()]
}

func appendUnique(xs []string, s string) []string {
	for _, x := range xs {
		if x == s {
			return xs
		}
	}
	return append(xs, s)
}

// isHarnessFn: the function comes from an injected zz_verif_* file.
func (m *Machine) isHarnessFn(fn *ssa.Function) bool {
	if v, ok := m.harnessFn[fn]; ok {
		return v
	}
	f := fn
	for f.Parent() != nil {
		f = f.Parent()
	}
	v := false
	if f.Synthetic == "package initializer" {
		v = true
	} else if f.Pos().IsValid() {
		v = strings.Contains(m.P.Prog.Fset.Position(f.Pos()).Filename, "zz_verif_")
	}
	m.harnessFn[fn] = v
	return v
}

// markOwned records every cell and map reachable from the package-level variables of
// the code under test, so that stores into shared state are seen even when they do not
// target the variable itself (a package-level cache map, a shared struct).
func (m *Machine) markOwned() {
	m.ownedCells = map[*Value]string{}
	m.ownedMaps = map[*Map]string{}
	var walk func(v Value, name string, depth int)
	walk = func(v Value, name string, depth int) {
		if depth > 8 {
			return
		}
		switch v := v.(type) {
		case *Value:
			if v == nil || m.ownedCells[v] != "" {
				return
			}
			m.ownedCells[v] = name
			walk(*v, name, depth+1)
		case *Map:
			if v == nil || m.ownedMaps[v] != "" {
				return
			}
			m.ownedMaps[v] = name
			for _, e := range v.Entries {
				walk(e.k, name, depth+1)
				walk(e.v, name, depth+1)
			}
		case Struct:
			for i := range v {
				m.ownedCells[&v[i]] = name
				walk(v[i], name, depth+1)
			}
		case Array:
			for i := range v {
				m.ownedCells[&v[i]] = name
				walk(v[i], name, depth+1)
			}
		case []Value:
			for i := range v {
				m.ownedCells[&v[i]] = name
				walk(v[i], name, depth+1)
			}
		case Iface:
			walk(v.V, name, depth+1)
		case *Closure:
			for _, e := range v.Env {
				walk(e, name, depth+1)
			}
		}
	}
	for g, cell := range m.globals {
		if m.inRoot(g.Pkg) && !strings.HasPrefix(g.Name(), "vHarnesses") {
			// the cell itself is covered by the direct check; walk what it holds
			walk(*cell, g.Name(), 0)
		}
	}
}
