package interp

import (
	"fmt"
	"go/constant"
	"go/token"
	"go/types"
	"strings"

	"golang.org/x/tools/go/ssa"
	"verif/engine/sym"
)

type deferred struct {
	fn   Value
	args []Value
	tail *deferred
}

type frame struct {
	m         *Machine
	caller    *frame
	fn        *ssa.Function
	fi        *funcInfo
	regs      []Value
	locals    []Value
	block     *ssa.BasicBlock
	prev      *ssa.BasicBlock
	defers    *deferred
	result    Value
	depth0    int
	panicking bool
	panicV    interface{}
}

func (fr *frame) get(v ssa.Value) Value {
	switch v := v.(type) {
	case nil:
		return nil
	case *ssa.Const:
		return fr.m.constValue(v)
	case *ssa.Function:
		return v
	case *ssa.Builtin:
		return v
	case *ssa.Global:
		return fr.m.global(v)
	}
	if i, ok := fr.fi.idx[vptr(v)]; ok {
		return fr.regs[i]
	}
	panic(fmt.Sprintf("get: no register for %T %s in %s", v, v.Name(), fr.fn))
}

func (fr *frame) set(v ssa.Value, x Value) {
	fr.regs[fr.fi.idx[vptr(v)]] = x
}

func (m *Machine) global(g *ssa.Global) *Value {
	if p, ok := m.globals[g]; ok {
		return p
	}
	p := new(Value)
	*p = zero(deref(g.Type()))
	m.globals[g] = p
	return p
}

func deref(t types.Type) types.Type {
	if p, ok := t.Underlying().(*types.Pointer); ok {
		return p.Elem()
	}
	panic(fmt.Sprintf("deref of non-pointer %v", t))
}

func (m *Machine) constValue(c *ssa.Const) Value {
	if v, ok := m.constC[c]; ok {
		return v
	}
	v := constValue0(c)
	m.constC[c] = v
	return v
}

func constValue0(c *ssa.Const) Value {
	if c.Value == nil {
		return zero(c.Type())
	}
	if t, ok := c.Type().Underlying().(*types.Basic); ok {
		switch {
		case t.Info()&types.IsBoolean != 0:
			return constant.BoolVal(c.Value)
		case t.Info()&types.IsInteger != 0:
			if t.Info()&types.IsUnsigned != 0 {
				u, _ := constant.Uint64Val(constant.ToInt(c.Value))
				return normInt(t, int64(u))
			}
			i, _ := constant.Int64Val(constant.ToInt(c.Value))
			return normInt(t, i)
		case t.Info()&types.IsFloat != 0:
			f, _ := constant.Float64Val(c.Value)
			return f
		case t.Info()&types.IsString != 0:
			if c.Value.Kind() == constant.String {
				return constant.StringVal(c.Value)
			}
			i, _ := constant.Int64Val(c.Value)
			return string(rune(i))
		}
	}
	panic(fmt.Sprintf("constValue: unsupported constant %v of type %v", c, c.Type()))
}

// initGlobals runs the package initialisers of the code under test.
func (m *Machine) initGlobals() {
	for _, path := range m.P.PkgOrder {
		pkg := m.P.MainPkg[path]
		if init := pkg.Func("init"); init != nil {
			m.call(init, nil)
		}
	}
}

func (m *Machine) inRoot(pkg *ssa.Package) bool {
	return pkg != nil && strings.HasPrefix(pkg.Pkg.Path(), m.P.RootMod)
}

// call invokes a function value.
func (m *Machine) call(fn Value, args []Value) Value {
	switch fn := fn.(type) {
	case *ssa.Function:
		if fn == nil {
			m.rtPanic("invalid memory address or nil pointer dereference (call of nil func)")
		}
		return m.callSSA(nil, fn, args, nil)
	case *Closure:
		return m.callSSA(nil, fn.Fn, args, fn.Env)
	case *ssa.Builtin:
		return m.callBuiltin(nil, fn, args, nil)
	}
	panic(fmt.Sprintf("call: cannot call %T", fn))
}

func (m *Machine) callFrom(caller *frame, fn Value, args []Value, cc *ssa.CallCommon) Value {
	switch fn := fn.(type) {
	case *ssa.Function:
		if fn == nil {
			m.rtPanic("invalid memory address or nil pointer dereference (call of nil func)")
		}
		return m.callSSA(caller, fn, args, nil)
	case *Closure:
		return m.callSSA(caller, fn.Fn, args, fn.Env)
	case *ssa.Builtin:
		return m.callBuiltin(caller, fn, args, cc)
	}
	panic(fmt.Sprintf("call: cannot call %T", fn))
}

func (m *Machine) callSSA(caller *frame, fn *ssa.Function, args []Value, env []Value) Value {
	fi := m.P.info(fn)
	if fn.Synthetic == "package initializer" && !m.inRoot(fn.Pkg) {
		return nil
	}
	if fn.Blocks == nil || !m.inRoot(fn.Pkg) {
		if r, ok := m.intrinsic(caller, fn, fi, args); ok {
			return r
		}
		if fn.Blocks == nil {
			m.unsupported("no body and no intrinsic: " + fi.name)
		}
		if !m.interpretable(fn) {
			m.unsupported("stdlib callee without intrinsic: " + fi.name)
		}
	}
	m.depth++
	if m.depth > m.Stats.MaxDepth {
		m.Stats.MaxDepth = m.depth
	}
	if m.depth > m.DepthMax {
		m.limitFail("call depth exceeds " + fmt.Sprint(m.DepthMax) + " in " + fi.short)
	}
	if len(m.limDepth) > 0 || len(m.limCalls) > 0 {
		if mx, ok := m.limDepth[fi.short]; ok {
			m.curDepth[fi.short]++
			if m.curDepth[fi.short] > mx {
				m.limitFail(fmt.Sprintf("recursion depth of %s exceeds derived bound %d", fi.short, mx))
			}
			defer func() { m.curDepth[fi.short]-- }()
		}
		if mx, ok := m.limCalls[fi.short]; ok {
			m.curCalls[fi.short]++
			if m.curCalls[fi.short] > mx {
				m.limitFail(fmt.Sprintf("number of calls of %s exceeds derived bound %d", fi.short, mx))
			}
		}
	}
	if m.inRoot(fn.Pkg) && !m.Stats.Funcs[fi.name] {
		m.Stats.Funcs[fi.name] = true
	}
	fr := &frame{m: m, caller: caller, fn: fn, fi: fi, depth0: m.depth}
	fr.regs = make([]Value, fi.nregs)
	n := 0
	for range fn.Params {
		fr.regs[n] = args[n]
		n++
	}
	for i := range fn.FreeVars {
		fr.regs[n] = env[i]
		n++
	}
	if len(fn.Locals) > 0 {
		fr.locals = make([]Value, len(fn.Locals))
		for i, l := range fn.Locals {
			fr.locals[i] = zero(deref(l.Type()))
			fr.regs[fi.idx[vptr(l)]] = &fr.locals[i]
		}
	}
	fr.block = fn.Blocks[0]
	for fr.block != nil {
		fr.run()
	}
	m.depth--
	return fr.result
}

// limitFail reports an unwinding-assertion failure with a model of the path.
func (m *Machine) limitFail(msg string) {
	m.failWith("limit", msg, nil)
	m.end("infeasible", "")
}

// run executes blocks until return; a target panic runs the deferred calls and either
// is recovered (jump to the recover block) or propagates.
func (fr *frame) run() {
	defer func() {
		if fr.block == nil {
			return // normal return
		}
		r := recover()
		if r == nil {
			return
		}
		if _, ok := r.(targetPanic); !ok {
			panic(r) // pathEnd or engine bug: never visible to the program
		}
		fr.panicking = true
		fr.panicV = r
		fr.m.depth = fr.depth0
		fr.runDefers()
		// recovered
		if fr.fn.Recover != nil {
			fr.block = fr.fn.Recover
		} else {
			// function without named results: returns zero values
			fr.result = zeroResults(fr.fn)
			fr.block = nil
		}
	}()
	for {
		blk := fr.block
		for _, instr := range blk.Instrs {
			fr.m.steps++
			if fr.m.steps > fr.m.StepBudget {
				fr.m.limitFail(fmt.Sprintf("step budget %d exhausted in %s", fr.m.StepBudget, fr.fi.short))
			}
			switch fr.visit(instr) {
			case kReturn:
				return
			case kJump:
				goto next
			}
		}
		panic("block fell through")
	next:
		// phis of the new block
		nb := fr.block
		var tmp []Value
		np := 0
		for _, in := range nb.Instrs {
			phi, ok := in.(*ssa.Phi)
			if !ok {
				break
			}
			np++
			for i, p := range nb.Preds {
				if p == fr.prev {
					tmp = append(tmp, fr.get(phi.Edges[i]))
					break
				}
			}
		}
		for i := 0; i < np; i++ {
			fr.set(nb.Instrs[i].(*ssa.Phi), tmp[i])
		}
	}
}

func zeroResults(fn *ssa.Function) Value {
	res := fn.Signature.Results()
	switch res.Len() {
	case 0:
		return nil
	case 1:
		return zero(res.At(0).Type())
	}
	t := make(Tuple, res.Len())
	for i := range t {
		t[i] = zero(res.At(i).Type())
	}
	return t
}

func (fr *frame) runDefer(d *deferred) {
	ok := false
	defer func() {
		if !ok {
			r := recover()
			if _, isT := r.(targetPanic); !isT {
				panic(r)
			}
			fr.panicking = true
			fr.panicV = r
		}
	}()
	fr.m.callFrom(fr, d.fn, d.args, nil)
	ok = true
}

func (fr *frame) runDefers() {
	for d := fr.defers; d != nil; d = d.tail {
		fr.runDefer(d)
	}
	fr.defers = nil
	if fr.panicking {
		panic(fr.panicV)
	}
}

type cont int

const (
	kNext cont = iota
	kReturn
	kJump
)

func (m *Machine) rtPanic(msg string) {
	m.Stats.RuntimeVCs++
	panic(targetPanic{Iface{T: m.runtimeErrorType(), V: "runtime error: " + msg}})
}

// runtimeErrorType is the dynamic type given to runtime errors raised by the engine.
func (m *Machine) runtimeErrorType() types.Type {
	if m.rtErrType == nil {
		pkg := types.NewPackage("runtime", "runtime")
		tn := types.NewTypeName(token.NoPos, pkg, "Error$engine", nil)
		m.rtErrType = types.NewNamed(tn, types.Typ[types.String], nil)
	}
	return m.rtErrType
}

// IsRuntimeError tells whether an interface value is an engine-raised runtime error.
func (m *Machine) IsRuntimeError(v Value) bool {
	i, ok := v.(Iface)
	return ok && i.T != nil && i.T == m.rtErrType
}

func (fr *frame) visit(instr ssa.Instruction) cont {
	m := fr.m
	switch instr := instr.(type) {
	case *ssa.DebugRef:

	case *ssa.UnOp:
		if m.trackGlobals && instr.Op == token.MUL {
			if g, ok := instr.X.(*ssa.Global); ok && m.inRoot(g.Pkg) && !m.isHarnessFn(fr.fn) {
				m.gLoads = appendUnique(m.gLoads, g.Name())
			}
		}
		fr.set(instr, m.unop(instr, fr.get(instr.X)))

	case *ssa.BinOp:
		fr.set(instr, m.binop(instr.Op, instr.X.Type(), fr.get(instr.X), fr.get(instr.Y)))

	case *ssa.Call:
		fn, args := fr.prepareCall(&instr.Call)
		fr.set(instr, m.callFrom(fr, fn, args, &instr.Call))

	case *ssa.ChangeInterface:
		fr.set(instr, fr.get(instr.X))

	case *ssa.ChangeType:
		fr.set(instr, fr.get(instr.X))

	case *ssa.Convert:
		fr.set(instr, m.conv(instr.Type(), instr.X.Type(), fr.get(instr.X)))

	case *ssa.MakeInterface:
		fr.set(instr, Iface{T: instr.X.Type(), V: fr.get(instr.X)})

	case *ssa.Extract:
		fr.set(instr, fr.get(instr.Tuple).(Tuple)[instr.Index])

	case *ssa.Slice:
		fr.set(instr, m.slice(instr, fr.get(instr.X), fr.get(instr.Low), fr.get(instr.High), fr.get(instr.Max)))

	case *ssa.Return:
		switch len(instr.Results) {
		case 0:
		case 1:
			fr.result = fr.get(instr.Results[0])
		default:
			res := make(Tuple, len(instr.Results))
			for i, r := range instr.Results {
				res[i] = fr.get(r)
			}
			fr.result = res
		}
		fr.block = nil
		return kReturn

	case *ssa.RunDefers:
		fr.runDefers()

	case *ssa.Panic:
		panic(targetPanic{fr.get(instr.X)})

	case *ssa.Store:
		if g, ok := instr.Addr.(*ssa.Global); ok && m.trackGlobals && m.inRoot(g.Pkg) && !m.isHarnessFn(fr.fn) {
			m.gStores = append(m.gStores, g.Name())
		}
		p := fr.get(instr.Addr).(*Value)
		if m.trackGlobals && m.ownedCells[p] != "" && !m.isHarnessFn(fr.fn) {
			m.gStores = append(m.gStores, "(object reachable from) "+m.ownedCells[p])
		}
		if p == nil {
			m.rtPanic("invalid memory address or nil pointer dereference")
		}
		*p = copyVal(fr.get(instr.Val))

	case *ssa.If:
		c := fr.get(instr.Cond)
		var b bool
		switch c := c.(type) {
		case bool:
			b = c
		case *sym.Term:
			b = m.Branch(c)
		default:
			panic(fmt.Sprintf("If on %T", c))
		}
		succ := 1
		if b {
			succ = 0
		}
		fr.prev, fr.block = fr.block, fr.block.Succs[succ]
		return kJump

	case *ssa.Jump:
		fr.prev, fr.block = fr.block, fr.block.Succs[0]
		return kJump

	case *ssa.Defer:
		fn, args := fr.prepareCall(&instr.Call)
		fr.defers = &deferred{fn: fn, args: args, tail: fr.defers}

	case *ssa.Alloc:
		var addr *Value
		if instr.Heap {
			addr = new(Value)
			fr.set(instr, addr)
		} else {
			addr = fr.get(instr).(*Value)
		}
		*addr = zero(deref(instr.Type()))

	case *ssa.MakeSlice:
		ln := m.asInt(fr.get(instr.Len))
		cp := m.asInt(fr.get(instr.Cap))
		if ln < 0 || cp < ln || cp > 1<<24 {
			m.rtPanic("makeslice: len out of range")
		}
		s := make([]Value, cp)
		et := instr.Type().Underlying().(*types.Slice).Elem()
		for i := range s {
			s[i] = zero(et)
		}
		fr.set(instr, s[:ln])

	case *ssa.MakeMap:
		fr.set(instr, newMap(instr.Type().Underlying().(*types.Map).Key()))

	case *ssa.Range:
		fr.set(instr, m.rangeIter(fr.get(instr.X)))

	case *ssa.Next:
		fr.set(instr, m.next(fr.get(instr.Iter), instr))

	case *ssa.FieldAddr:
		p := fr.get(instr.X).(*Value)
		if p == nil {
			m.rtPanic("invalid memory address or nil pointer dereference")
		}
		fr.set(instr, &(*p).(Struct)[instr.Field])

	case *ssa.Field:
		fr.set(instr, fr.get(instr.X).(Struct)[instr.Field])

	case *ssa.IndexAddr:
		x := fr.get(instr.X)
		idx := m.asInt(fr.get(instr.Index))
		switch x := x.(type) {
		case []Value:
			if idx < 0 || idx >= int64(len(x)) {
				m.rtPanic(fmt.Sprintf("index out of range [%d] with length %d", idx, len(x)))
			}
			fr.set(instr, &x[idx])
		case *Value:
			if x == nil {
				m.rtPanic("invalid memory address or nil pointer dereference")
			}
			a := (*x).(Array)
			if idx < 0 || idx >= int64(len(a)) {
				m.rtPanic(fmt.Sprintf("index out of range [%d] with length %d", idx, len(a)))
			}
			fr.set(instr, &a[idx])
		default:
			panic(fmt.Sprintf("IndexAddr on %T", x))
		}

	case *ssa.Index:
		x := fr.get(instr.X)
		switch x := x.(type) {
		case Array:
			idx := m.asInt(fr.get(instr.Index))
			if idx < 0 || idx >= int64(len(x)) {
				m.rtPanic(fmt.Sprintf("index out of range [%d] with length %d", idx, len(x)))
			}
			fr.set(instr, x[idx])
		case string, *SStr:
			fr.set(instr, m.strIndex(x, fr.get(instr.Index)))
		default:
			panic(fmt.Sprintf("Index on %T", x))
		}

	case *ssa.Lookup:
		fr.set(instr, m.lookup(instr, fr.get(instr.X), fr.get(instr.Index)))

	case *ssa.MapUpdate:
		mp := fr.get(instr.Map).(*Map)
		if mp == nil {
			m.rtPanic("assignment to entry in nil map")
		}
		if m.trackGlobals && m.ownedMaps[mp] != "" && !m.isHarnessFn(fr.fn) {
			m.gStores = append(m.gStores, "(map reachable from) "+m.ownedMaps[mp])
		}
		m.mapSet(mp, fr.get(instr.Key), copyVal(fr.get(instr.Value)))

	case *ssa.TypeAssert:
		fr.set(instr, m.typeAssert(instr, fr.get(instr.X).(Iface)))

	case *ssa.MakeClosure:
		var env []Value
		for _, b := range instr.Bindings {
			env = append(env, fr.get(b))
		}
		fr.set(instr, &Closure{Fn: instr.Fn.(*ssa.Function), Env: env})

	case *ssa.Phi:
		// handled at block entry

	default:
		m.unsupported(fmt.Sprintf("instruction %T", instr))
	}
	return kNext
}

func (fr *frame) prepareCall(cc *ssa.CallCommon) (Value, []Value) {
	v := fr.get(cc.Value)
	var fn Value
	var args []Value
	if cc.Method == nil {
		fn = v
	} else {
		recv := v.(Iface)
		if recv.T == nil {
			fr.m.rtPanic("invalid memory address or nil pointer dereference (method on nil interface)")
		}
		f := fr.m.P.Prog.LookupMethod(recv.T, cc.Method.Pkg(), cc.Method.Name())
		if f == nil {
			panic(fmt.Sprintf("no method %s on %v", cc.Method.Name(), recv.T))
		}
		fn = f
		args = append(args, recv.V)
	}
	for _, a := range cc.Args {
		args = append(args, fr.get(a))
	}
	return fn, args
}

// invoke calls method name on an interface value (used by intrinsics).
func (m *Machine) invoke(recv Iface, name string, args ...Value) Value {
	if recv.T == nil {
		m.rtPanic("invalid memory address or nil pointer dereference (method on nil interface)")
	}
	ms := m.P.Prog.MethodSets.MethodSet(recv.T)
	for i := 0; i < ms.Len(); i++ {
		sel := ms.At(i)
		if sel.Obj().Name() == name {
			f := m.P.Prog.MethodValue(sel)
			if f == nil {
				break
			}
			return m.callSSA(nil, f, append([]Value{recv.V}, args...), nil)
		}
	}
	m.unsupported("invoke: no method " + name + " on " + recv.T.String())
	return nil
}

func (m *Machine) hasMethod(t types.Type, name string) bool {
	ms := m.P.Prog.MethodSets.MethodSet(t)
	for i := 0; i < ms.Len(); i++ {
		if ms.At(i).Obj().Name() == name {
			return true
		}
	}
	return false
}

// asInt returns a concrete integer, forking over the feasible values of a symbolic one.
func (m *Machine) asInt(v Value) int64 {
	switch v := v.(type) {
	case int64:
		return v
	case *sym.Term:
		return m.Concretise(v)
	case nil:
		return 0
	}
	panic(fmt.Sprintf("asInt: %T", v))
}

func (m *Machine) identical(a, b types.Type) bool {
	if a == b {
		return true
	}
	k := [2]types.Type{a, b}
	if v, ok := m.identC[k]; ok {
		return v
	}
	v := types.Identical(a, b)
	m.identC[k] = v
	return v
}

func (m *Machine) typeAssert(instr *ssa.TypeAssert, x Iface) Value {
	ok := false
	var v Value
	if it, isI := instr.AssertedType.Underlying().(*types.Interface); isI {
		if x.T != nil {
			k := [2]types.Type{x.T, instr.AssertedType}
			impl, have := m.identC[k]
			if !have {
				impl = types.Implements(x.T, it)
				m.identC[k] = impl
			}
			ok = impl
		}
		if ok {
			v = x
		}
	} else {
		if x.T != nil && m.identical(x.T, instr.AssertedType) {
			ok = true
			v = x.V
		}
	}
	if instr.CommaOk {
		if !ok {
			v = zero(instr.AssertedType)
		}
		return Tuple{v, ok}
	}
	if !ok {
		if x.T == nil {
			m.rtPanic(fmt.Sprintf("interface conversion: interface is nil, not %v", instr.AssertedType))
		}
		m.rtPanic(fmt.Sprintf("interface conversion: interface is %v, not %v", x.T, instr.AssertedType))
	}
	return v
}

// interpretable: stdlib functions that may be run from their SSA (pure, no package
// state).
func (m *Machine) interpretable(fn *ssa.Function) bool {
	if fn.Pkg == nil {
		// synthetic wrappers, bound methods, instantiations
		if fn.Synthetic != "" {
			return true
		}
		return false
	}
	return interpretablePkgs[fn.Pkg.Pkg.Path()]
}

func appendUnique(xs []string, s string) []string {
	for _, x := range xs {
		if x == s {
			return xs
		}
	}
	return append(xs, s)
}

// isHarnessFn: the function comes from an injected zz_verif_* file.
func (m *Machine) isHarnessFn(fn *ssa.Function) bool {
	if v, ok := m.harnessFn[fn]; ok {
		return v
	}
	f := fn
	for f.Parent() != nil {
		f = f.Parent()
	}
	v := false
	if f.Synthetic == "package initializer" {
		v = true
	} else if f.Pos().IsValid() {
		v = strings.Contains(m.P.Prog.Fset.Position(f.Pos()).Filename, "zz_verif_")
	}
	m.harnessFn[fn] = v
	return v
}

// markOwned records every cell and map reachable from the package-level variables of
// the code under test, so that stores into shared state are seen even when they do not
// target the variable itself (a package-level cache map, a shared struct).
func (m *Machine) markOwned() {
	m.ownedCells = map[*Value]string{}
	m.ownedMaps = map[*Map]string{}
	var walk func(v Value, name string, depth int)
	walk = func(v Value, name string, depth int) {
		if depth > 8 {
			return
		}
		switch v := v.(type) {
		case *Value:
			if v == nil || m.ownedCells[v] != "" {
				return
			}
			m.ownedCells[v] = name
			walk(*v, name, depth+1)
		case *Map:
			if v == nil || m.ownedMaps[v] != "" {
				return
			}
			m.ownedMaps[v] = name
			for _, e := range v.Entries {
				walk(e.k, name, depth+1)
				walk(e.v, name, depth+1)
			}
		case Struct:
			for i := range v {
				m.ownedCells[&v[i]] = name
				walk(v[i], name, depth+1)
			}
		case Array:
			for i := range v {
				m.ownedCells[&v[i]] = name
				walk(v[i], name, depth+1)
			}
		case []Value:
			for i := range v {
				m.ownedCells[&v[i]] = name
				walk(v[i], name, depth+1)
			}
		case Iface:
			walk(v.V, name, depth+1)
		case *Closure:
			for _, e := range v.Env {
				walk(e, name, depth+1)
			}
		}
	}
	for g, cell := range m.globals {
		if m.inRoot(g.Pkg) && !strings.HasPrefix(g.Name(), "vHarnesses") {
			// the cell itself is covered by the direct check; walk what it holds
			walk(*cell, g.Name(), 0)
		}
	}
}
