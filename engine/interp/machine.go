package interp

import (
	"errors"
	"fmt"
	"go/types"
	"math"
	"sort"
	"strconv"
	"strings"
	"sync"
	"unsafe"

	"golang.org/x/tools/go/ssa"
	"verif/engine/sym"
)

// Program is the shared, read-only part: the SSA program built from /repo plus
// overlay, and per-function register numbering.
type Program struct {
	Prog     *ssa.Program
	MainPkg  map[string]*ssa.Package // by import path
	PkgOrder []string
	finfo    sync.Map        // *ssa.Function -> *funcInfo
	RootMod  string          // import path prefix whose code is "the code under test"
	Known    map[string]bool // known-finding ids with status "known"
}

const (
	opReg = iota
	opConst
	opGlobal
	opZero
	opNil
)

// opnd is a precompiled operand: a register, a constant, a global or a fresh zero value.
type opnd struct {
	kind uint8
	idx  int32
	val  Value
	g    *ssa.Global
	t    types.Type
}

// pinstr carries the destination register and the operands of one instruction in the
// canonical order used by visit.
type pinstr struct {
	dst int32
	ops []opnd
}

type funcInfo struct {
	code      [][]pinstr // [block index][instruction index]
	localZero []opnd
	localReg  []int32
	nphis     []int
	idx       map[unsafe.Pointer]int32
	nregs     int
	name      string
	short     string // name without package path for limit matching, e.g. "fsm.apply"
}

func (p *Program) info(fn *ssa.Function) *funcInfo {
	if fi, ok := p.finfo.Load(fn); ok {
		return fi.(*funcInfo)
	}
	fi := &funcInfo{idx: map[unsafe.Pointer]int32{}}
	n := int32(0)
	for _, v := range fn.Params {
		fi.idx[vptr(v)] = n
		n++
	}
	for _, v := range fn.FreeVars {
		fi.idx[vptr(v)] = n
		n++
	}
	for _, b := range fn.Blocks {
		for _, in := range b.Instrs {
			if v, ok := in.(ssa.Value); ok {
				fi.idx[vptr(v)] = n
				n++
			}
		}
	}
	fi.nregs = int(n)
	fi.precompile(fn)
	fi.name = fn.String()
	fi.short = shortName(fn)
	p.finfo.Store(fn, fi)
	return fi
}

// shortName gives "pkgname.Func" or "pkgname.Type.Method" for limit matching.
func shortName(fn *ssa.Function) string {
	s := fn.String() // e.g. (*github.com/jawher/mow.cli/internal/fsm.State).apply
	s = strings.NewReplacer("(", "", ")", "", "*", "").Replace(s)
	if i := strings.LastIndex(s, "/"); i >= 0 {
		s = s[i+1:]
	}
	return s
}

// ---------------------------------------------------------------------------------
// path control

// pathEnd is raised (as a Go panic) to finish the current path.
type pathEnd struct {
	kind   string // "assume", "assertfail", "limit", "unsupported", "done", "budget"
	detail string
}

// targetPanic is a panic of the interpreted program.
type targetPanic struct {
	v Value // always an Iface
}

// trail entry: the outcome of one nondeterministic event of the path.
type entry struct {
	val    int64
	alts   []int64 // alternatives not explored yet
	chosen bool    // both sides feasible: literal asserted in the solver
	isVal  bool    // value entry (model value used by concretise); no alternatives
}

// NondetRec is one vNondet* result of the path, in call order (replayed natively).
type NondetRec struct {
	Tag  string
	Kind string // "int" "bool" "byte" "string" "value"
	V    Value
}

type Obs struct {
	Tag string
	V   Value
}

// Failure is an assertion (or limit) failure with the model that exhibits it.
type Failure struct {
	Kind    string // "assert", "limit", "panic"
	Msg     string
	Nondets []ReplayVal
	Obs     []string
	Trail   []int64
	// MapOrders counts the map iterations whose order the engine chose on this path
	// (vMapOrder(2)): the native build picks its own, so such a failure is replayed
	// repeatedly.
	MapOrders int
}

type ReplayVal struct {
	Tag  string `json:"tag"`
	Kind string `json:"kind"`
	Int  int64  `json:"int,omitempty"`
	Bool bool   `json:"bool,omitempty"`
	Str  []byte `json:"str,omitempty"`
}

// PathResult summarises one completed path.
type PathResult struct {
	End      string
	Detail   string
	Failure  *Failure
	Nondets  []ReplayVal // model of the path (when sampled)
	Obs      []string
	Covers   []string
	Branches int
}

type Stats struct {
	Paths           int64
	Branches        int64
	Forks           int64
	Steps           int64
	AssertsTrivial  int64
	AssertsSolver   int64
	AssertsFailed   int64
	AssumeCut       int64
	Unsupported     int64
	LimitHits       int64
	Inconclusive    int64
	RuntimeVCs      int64
	DecidedNoSolve  int64
	UFFacts         int64
	Choices         int64
	InductionProofs int64
	MaxInductionK   int
	UFRefuted       int64
	UnsupportedWhy  map[string]int64
	Funcs           map[string]bool
	Intrinsics      map[string]bool
	Covers          map[string]int64
	MaxDepth        int
}

func NewStats() *Stats {
	return &Stats{UnsupportedWhy: map[string]int64{}, Funcs: map[string]bool{}, Intrinsics: map[string]bool{}, Covers: map[string]int64{}}
}

func (s *Stats) Merge(o *Stats) {
	s.Paths += o.Paths
	s.Branches += o.Branches
	s.Forks += o.Forks
	s.Steps += o.Steps
	s.AssertsTrivial += o.AssertsTrivial
	s.AssertsSolver += o.AssertsSolver
	s.AssertsFailed += o.AssertsFailed
	s.AssumeCut += o.AssumeCut
	s.Unsupported += o.Unsupported
	s.LimitHits += o.LimitHits
	s.Inconclusive += o.Inconclusive
	s.RuntimeVCs += o.RuntimeVCs
	s.DecidedNoSolve += o.DecidedNoSolve
	s.UFFacts += o.UFFacts
	s.Choices += o.Choices
	s.InductionProofs += o.InductionProofs
	if o.MaxInductionK > s.MaxInductionK {
		s.MaxInductionK = o.MaxInductionK
	}
	s.UFRefuted += o.UFRefuted
	for k, v := range o.UnsupportedWhy {
		s.UnsupportedWhy[k] += v
	}
	for k := range o.Funcs {
		s.Funcs[k] = true
	}
	for k := range o.Intrinsics {
		s.Intrinsics[k] = true
	}
	for k, v := range o.Covers {
		s.Covers[k] += v
	}
	if o.MaxDepth > s.MaxDepth {
		s.MaxDepth = o.MaxDepth
	}
}

// Machine executes paths of one harness entry. One per worker.
type Machine struct {
	P      *Program
	Ctx    *sym.Ctx
	Solver *sym.Solver
	Stats  *Stats

	// unit configuration
	Params          map[string]interface{} // int or string
	StepBudget      int64
	DepthMax        int
	MapOrder        int // 0 insertion, 1 reverse, 2 explore orders
	MapOrderDefault int
	mapOrders       int
	mapOrderProduct int

	// per path
	globals      map[*ssa.Global]*Value
	trail        []entry
	tpos         int
	nchosen      int // chosen entries seen so far on this path
	known        map[*sym.Term]bool
	steps        int64
	depth        int
	nondets      []NondetRec
	obs          []Obs
	covers       []string
	env          map[string]Value
	envOrder     []string
	limDepth     map[string]int
	limCalls     map[string]int
	curDepth     map[string]int
	curCalls     map[string]int
	nvar         int
	nopaque      int
	inconcl      bool
	failure      *Failure
	outWriter    map[*Value]bool
	constC       map[*ssa.Const]Value
	identC       map[[2]types.Type]bool
	rtErrType    types.Type
	vstack       []Value // registers and non-escaping locals of the live frames
	sp           int
	ufFacts      []*sym.Term
	ufFactSet    map[*sym.Term]bool
	modelRefuted bool
	trackGlobals bool
	gStores      []string
	gLoads       []string
	harnessFn    map[*ssa.Function]bool
	ownedCells   map[*Value]string
	Forced       []ReplayVal // concrete replay inside the engine: vNondet* return these
	forcedPos    int
	ownedMaps    map[*Map]string
}

func NewMachine(p *Program, solverName string, timeoutMs int) (*Machine, error) {
	ctx := sym.NewCtx()
	s, err := sym.Start(solverName, ctx, timeoutMs)
	if err != nil {
		return nil, err
	}
	return &Machine{P: p, Ctx: ctx, Solver: s, Stats: NewStats(), StepBudget: 20_000_000, DepthMax: 3000,
		constC: map[*ssa.Const]Value{}, identC: map[[2]types.Type]bool{}}, nil
}

func (m *Machine) Close() { m.Solver.Close() }

func (m *Machine) end(kind, detail string) {
	panic(pathEnd{kind, detail})
}

func (m *Machine) unsupported(why string) {
	m.end("unsupported", why)
}

func (m *Machine) freshVar(prefix string, w int) *sym.Term {
	name := fmt.Sprintf("%s%d", prefix, m.nvar)
	m.nvar++
	return m.Ctx.Var(name, w)
}

// lit returns the literal for cond taking value val.
func (m *Machine) lit(c *sym.Term, val bool) *sym.Term {
	if val {
		return c
	}
	return m.Ctx.Not(c)
}

func (m *Machine) setKnown(c *sym.Term, val bool) {
	m.known[c] = val
	if c.Op == sym.OpNot {
		m.known[c.Args[0]] = !val
	}
	// a true conjunction makes both conjuncts true; a false disjunction both false
	if c.Op == sym.OpAnd && val {
		m.setKnown(c.Args[0], true)
		m.setKnown(c.Args[1], true)
	}
	if c.Op == sym.OpOr && !val {
		m.setKnown(c.Args[0], false)
		m.setKnown(c.Args[1], false)
	}
}

func (m *Machine) lookupKnown(c *sym.Term) (bool, bool) {
	if v, ok := m.known[c]; ok {
		return v, true
	}
	if c.Op == sym.OpNot {
		if v, ok := m.known[c.Args[0]]; ok {
			return !v, true
		}
	}
	if c.Op == sym.OpAnd {
		a, oka := m.lookupKnown(c.Args[0])
		b, okb := m.lookupKnown(c.Args[1])
		if (oka && !a) || (okb && !b) {
			return false, true
		}
		if oka && okb {
			return true, true
		}
	}
	if c.Op == sym.OpOr {
		a, oka := m.lookupKnown(c.Args[0])
		b, okb := m.lookupKnown(c.Args[1])
		if (oka && a) || (okb && b) {
			return true, true
		}
		if oka && okb {
			return false, true
		}
	}
	return false, false
}

// assertChosen makes sure the literal of the k-th chosen entry is on the solver stack.
func (m *Machine) assertChosen(l *sym.Term) {
	m.nchosen++
	if m.nchosen > m.Solver.Level() {
		m.Solver.Push()
		m.Solver.Assert(l)
	}
}

// Branch decides a symbolic condition: consults what the path already implies, then
// the trail (re-execution), then the solver.
func (m *Machine) Branch(c *sym.Term) bool {
	if c.Op == sym.OpConst {
		return c.K != 0
	}
	if v, ok := m.lookupKnown(c); ok {
		m.Stats.DecidedNoSolve++
		return v
	}
	m.Stats.Branches++
	if m.tpos < len(m.trail) {
		e := &m.trail[m.tpos]
		m.tpos++
		if e.isVal {
			panic("engine: trail desynchronised (value entry at branch)")
		}
		val := e.val != 0
		if e.chosen {
			m.assertChosen(m.lit(c, val))
		}
		m.setKnown(c, val)
		return val
	}
	// new event
	r1, _ := m.Solver.Check(c, nil)
	var e entry
	switch r1 {
	case sym.Unsat:
		e = entry{val: 0}
	default:
		if r1 == sym.Unknown {
			m.inconcl = true
		}
		r2, _ := m.Solver.Check(m.Ctx.Not(c), nil)
		if r2 == sym.Unknown {
			m.inconcl = true
		}
		if r2 == sym.Unsat {
			e = entry{val: 1}
		} else {
			e = entry{val: 1, alts: []int64{0}, chosen: true}
			m.Stats.Forks++
		}
	}
	m.trail = append(m.trail, e)
	m.tpos++
	val := e.val != 0
	if e.chosen {
		m.assertChosen(m.lit(c, val))
	}
	m.setKnown(c, val)
	return val
}

// Choose is a non-solver n-way choice (map iteration orders, ...).
func (m *Machine) Choose(n int) int {
	if n <= 1 {
		return 0
	}
	m.Stats.Choices++
	if m.tpos < len(m.trail) {
		e := &m.trail[m.tpos]
		m.tpos++
		return int(e.val)
	}
	e := entry{val: 0}
	for i := 1; i < n; i++ {
		e.alts = append(e.alts, int64(i))
	}
	m.trail = append(m.trail, e)
	m.tpos++
	return 0
}

// Concretise forks over the feasible values of a symbolic integer.
func (m *Machine) Concretise(t *sym.Term) int64 {
	for {
		if t.Op == sym.OpConst {
			return sextTo64(t.W, t.K)
		}
		var v uint64
		if m.tpos < len(m.trail) {
			e := &m.trail[m.tpos]
			m.tpos++
			if !e.isVal {
				panic("engine: trail desynchronised (branch entry at value)")
			}
			v = uint64(e.val)
		} else {
			r, model := m.Solver.Check(nil, []*sym.Term{t})
			if r != sym.Sat {
				m.inconcl = true
				m.end("unsupported", "concretise: solver did not return a model")
			}
			v = model[t.String()]
			m.trail = append(m.trail, entry{val: int64(v), isVal: true})
			m.tpos++
		}
		if m.Branch(m.Ctx.Eq(t, m.Ctx.BV(t.W, v))) {
			return sextTo64(t.W, v)
		}
	}
}

// Assume cuts the path when c cannot hold and constrains it otherwise.
func (m *Machine) Assume(c Value) {
	switch c := c.(type) {
	case bool:
		if !c {
			m.Stats.AssumeCut++
			m.end("assume", "")
		}
	case *sym.Term:
		if c.Op == sym.OpConst {
			if c.K == 0 {
				m.Stats.AssumeCut++
				m.end("assume", "")
			}
			return
		}
		if v, ok := m.lookupKnown(c); ok {
			if !v {
				m.Stats.AssumeCut++
				m.end("assume", "")
			}
			return
		}
		// no fork: the condition is added to the path condition when it can hold
		var e *entry
		if m.tpos < len(m.trail) {
			e = &m.trail[m.tpos]
		} else {
			r, _ := m.Solver.Check(c, nil)
			if r == sym.Unknown {
				m.inconcl = true
			}
			if r == sym.Unsat {
				m.trail = append(m.trail, entry{val: 0})
			} else {
				m.trail = append(m.trail, entry{val: 1, chosen: true})
			}
			e = &m.trail[m.tpos]
		}
		m.tpos++
		if e.val == 0 {
			m.Stats.AssumeCut++
			m.end("assume", "")
		}
		m.assertChosen(c)
		m.setKnown(c, true)
	}
}

// model asks for a model of the current path condition (plus extra) and renders the
// nondet values and observations under it. Applications of the uninterpreted strconv
// functions are checked against the real strconv on the model's bytes; where the
// solver's interpretation differs, the true ground fact is added and the query
// repeated (lazy refinement), so that models are consistent with the real functions.
func (m *Machine) model(extra *sym.Term) ([]ReplayVal, []string, bool) {
	m.modelRefuted = false
	vars := map[string]*sym.Term{}
	for _, n := range m.nondets {
		collectValue(n.V, vars)
	}
	for _, o := range m.obs {
		collectValue(o.V, vars)
	}
	if len(m.Ctx.UFs) > 0 {
		for lit := range m.known {
			if hasUF(lit) {
				lit.Collect(vars)
			}
		}
		if extra != nil {
			extra.Collect(vars)
		}
	}
	names := make([]string, 0, len(vars))
	for k := range vars {
		names = append(names, k)
	}
	sort.Strings(names)
	want := make([]*sym.Term, 0, len(names))
	var apps []*sym.Term
	for _, k := range names {
		want = append(want, vars[k])
		if vars[k].Op == sym.OpUF {
			apps = append(apps, vars[k])
		}
	}
	if len(want) == 0 {
		want = nil
	}
	var env map[string]uint64
	// counterexample search over uninterpreted strconv: first restrict the tokens to a
	// corpus of edge cases with their true values, so that a violation that exists for
	// the real strconv is exhibited by a token on which the real functions really differ
	var corpusQ *sym.Term
	if len(apps) > 0 {
		corpusQ = m.corpusConstraint(apps)
	}
	if want != nil || extra != nil {
		for iter := 0; ; iter++ {
			var q []*sym.Term
			if extra != nil {
				q = append(q, extra)
			}
			if corpusQ != nil {
				q = append(q, corpusQ)
			}
			q = append(q, m.ufFacts...)
			var r sym.Result
			r, env = m.Solver.CheckAll(q, want)
			if r != sym.Sat && corpusQ != nil {
				corpusQ = nil // no corpus witness: unrestricted search
				iter = -1
				continue
			}
			if r != sym.Sat {
				if r == sym.Unsat && len(m.ufFacts) > 0 {
					m.Stats.UFRefuted++
					m.modelRefuted = true
				}
				return nil, nil, false
			}
			if len(apps) == 0 {
				break
			}
			added := false
			for _, app := range apps {
				bs := make([]byte, len(app.Args))
				cargs := make([]*sym.Term, len(app.Args))
				for i, a := range app.Args {
					v := a.Eval(env)
					bs[i] = byte(v)
					cargs[i] = m.Ctx.BV(8, v)
				}
				real, ok := ufReal(app.Name, bs)
				if !ok {
					continue
				}
				if env[app.String()] != real {
					var rc *sym.Term
					if app.W == 0 {
						rc = m.Ctx.Bool(real != 0)
					} else {
						rc = m.Ctx.BV(app.W, real)
					}
					fact := m.Ctx.Eq(m.Ctx.UF(app.Name, app.W, cargs...), rc)
					if !m.ufFactSet[fact] {
						if m.ufFactSet == nil {
							m.ufFactSet = map[*sym.Term]bool{}
						}
						m.ufFactSet[fact] = true
						m.ufFacts = append(m.ufFacts, fact)
						if len(m.ufFacts) > 400 { // keep the conjunction small: forget the oldest facts
							delete(m.ufFactSet, m.ufFacts[0])
							m.ufFacts = m.ufFacts[1:]
						}
						m.Stats.UFFacts++
					}
					added = true
				}
			}
			if !added {
				break
			}
			if iter >= 24 {
				m.inconcl = true
				return nil, nil, false
			}
		}
	}
	if env == nil {
		env = map[string]uint64{}
	}
	var out []ReplayVal
	for _, n := range m.nondets {
		rv := ReplayVal{Tag: n.Tag, Kind: n.Kind}
		switch n.Kind {
		case "int", "byte", "value":
			switch x := n.V.(type) {
			case int64:
				rv.Int = x
			case *sym.Term:
				rv.Int = sextTo64(x.W, x.Eval(env))
				if n.Kind == "byte" {
					rv.Int &= 0xff
				}
			}
		case "bool":
			switch x := n.V.(type) {
			case bool:
				rv.Bool = x
			case *sym.Term:
				rv.Bool = x.Eval(env) != 0
			}
		case "string":
			for _, b := range strPieces(n.V) {
				switch b := b.(type) {
				case int64:
					rv.Str = append(rv.Str, byte(b))
				case *sym.Term:
					rv.Str = append(rv.Str, byte(b.Eval(env)))
				}
			}
			if rv.Str == nil {
				rv.Str = []byte{}
			}
		}
		out = append(out, rv)
	}
	var obs []string
	for _, o := range m.obs {
		obs = append(obs, o.Tag+"="+m.render(o.V, env))
	}
	return out, obs, true
}

// ufCorpus: tokens on which the strconv functions are sensitive to base, bit size,
// trimming and spelling.
var ufCorpus = []string{"0", "1", "7", "-", "+", "a", "t", "T", "f", "F", "x", " ", "",
	"-1", "+5", "10", "07", "08", "09", "0b", "0o", "1.", ".5", "1e", "0x", "on", "no", " 5", "5 ", "1_", "_1", "tT",
	"1e3", "010", "0x1", "1_0", "0b1", "0o7", "inf", "Inf", "NaN", "nan", "1.5", "-.5", "+.5", "1e+", "yes", "off", " 10", "10 ", "255", "256", "-00", "0_1",
	"0x10", "1_00", "1e10", "true", "True", "TRUE", "tRUE", "0b11", "0o17", "+Inf", "-Inf", "+inf", "1e-3", "0x1p", "1.50", "-128", "128 ", " 128", "0X1F", "1__0", "1E10",
	"false", "False", "FALSE", "0x1p4", "1_000", "32768", "65536", "-0x10", "+0x10", "1e400", "0b101", "1.e+1",
	"0x1p-2", "-32769", "0x7fff", "999999", "1_0_0_", "Infini",
	"2147483", "0x1p-10", "1000000", "-1e-400",
	"Infinity", "infinity", "INFINITY", "+1_0_0_0", "0x1.8p+1", "99999999", "-9999999", "1e-99999",
	"0.1", "3.14", "1e39", "1e309", "4e-324", "16777217", "2147483647", "2147483648", "4294967296", "-2147483649", "0.10000000149011612",
	"9223372036854775807", "9223372036854775808", "-9223372036854775808", "-9223372036854775809", "18446744073709551616", "1e-46", "3.4e38", "3.5e38"}

// corpusConstraint restricts every token fed to an uninterpreted function to the
// corpus tokens of its length and states the true values of all functions involved.
func (m *Machine) corpusConstraint(apps []*sym.Term) *sym.Term {
	c := m.Ctx
	type tup struct {
		args []*sym.Term
		key  string
	}
	seen := map[string]bool{}
	var tuples []tup
	namesByLen := map[int]map[string]int{}
	for _, app := range apps {
		var sb strings.Builder
		for _, a := range app.Args {
			sb.WriteString(a.String())
			sb.WriteByte(' ')
		}
		if !seen[sb.String()] {
			seen[sb.String()] = true
			tuples = append(tuples, tup{app.Args, sb.String()})
		}
		if namesByLen[len(app.Args)] == nil {
			namesByLen[len(app.Args)] = map[string]int{}
		}
		namesByLen[len(app.Args)][app.Name] = app.W
	}
	var q *sym.Term = c.True
	for _, t := range tuples {
		var any *sym.Term = c.False
		for _, tok := range ufCorpus {
			if len(tok) != len(t.args) {
				continue
			}
			var eq *sym.Term = c.True
			for i := range t.args {
				eq = c.And(eq, c.Eq(t.args[i], c.BV(8, uint64(tok[i]))))
			}
			any = c.Or(any, eq)
		}
		q = c.And(q, any)
	}
	for n, names := range namesByLen {
		var ns []string
		for name := range names {
			ns = append(ns, name)
		}
		sort.Strings(ns)
		for _, tok := range ufCorpus {
			if len(tok) != n {
				continue
			}
			cargs := make([]*sym.Term, n)
			for i := 0; i < n; i++ {
				cargs[i] = c.BV(8, uint64(tok[i]))
			}
			for _, name := range ns {
				w := names[name]
				real, ok := ufReal(name, []byte(tok))
				if !ok {
					continue
				}
				var rc *sym.Term
				if w == 0 {
					rc = c.Bool(real != 0)
				} else {
					rc = c.BV(w, real)
				}
				q = c.And(q, c.Eq(c.UF(name, w, cargs...), rc))
			}
		}
	}
	return q
}

func hasUF(t *sym.Term) bool {
	if t.Op == sym.OpUF {
		return true
	}
	for _, a := range t.Args {
		if hasUF(a) {
			return true
		}
	}
	return false
}

// ufReal evaluates an uninterpreted strconv function on concrete bytes with the real
// strconv. Names: ParseBool_{ok,val}_L<n>, ParseInt_{ok,val,errval}_b<base>_s<bits>_L<n>,
// ParseFloat_{ok,val,errval}_s<bits>_L<n>.
func ufReal(name string, bs []byte) (uint64, bool) {
	parts := strings.Split(name, "_")
	if len(parts) < 3 {
		return 0, false
	}
	// ParseInt_range_b10_s64_L3 / ParseFloat_range_s64_L5: is the failure a range error?
	if parts[1] == "range" {
		var err error
		switch parts[0] {
		case "ParseInt":
			base, _ := strconv.Atoi(parts[2][1:])
			bits, _ := strconv.Atoi(parts[3][1:])
			_, err = strconv.ParseInt(string(bs), base, bits)
		case "ParseFloat":
			bits, _ := strconv.Atoi(parts[2][1:])
			_, err = strconv.ParseFloat(string(bs), bits)
		default:
			return 0, false
		}
		if err == nil {
			return 0, false
		}
		if errors.Is(err, strconv.ErrRange) {
			return 1, true
		}
		return 0, true
	}
	b2u := func(b bool) uint64 {
		if b {
			return 1
		}
		return 0
	}
	s := string(bs)
	switch parts[0] {
	case "ParseInt" + "":
	}
	switch parts[0] {
	case "ParseBool":
		v, err := strconv.ParseBool(s)
		switch parts[1] {
		case "ok":
			return b2u(err == nil), true
		case "val":
			if err != nil {
				return 0, false
			}
			return b2u(v), true
		}
	case "ParseInt":
		if len(parts) < 5 {
			return 0, false
		}
		base, _ := strconv.Atoi(parts[2][1:])
		bits, _ := strconv.Atoi(parts[3][1:])
		v, err := strconv.ParseInt(s, base, bits)
		switch parts[1] {
		case "ok":
			return b2u(err == nil), true
		case "val":
			if err != nil {
				return 0, false
			}
			return uint64(v), true
		case "errval":
			if err == nil {
				return 0, false
			}
			return uint64(v), true
		}
	case "ParseFloat":
		if len(parts) < 4 {
			return 0, false
		}
		bits, _ := strconv.Atoi(parts[2][1:])
		v, err := strconv.ParseFloat(s, bits)
		switch parts[1] {
		case "ok":
			return b2u(err == nil), true
		case "val":
			if err != nil {
				return 0, false
			}
			return math.Float64bits(v), true
		case "errval":
			if err == nil {
				return 0, false
			}
			return math.Float64bits(v), true
		}
	}
	return 0, false
}

func collectValue(v Value, vars map[string]*sym.Term) {
	switch v := v.(type) {
	case *sym.Term:
		v.Collect(vars)
	case *SStr:
		for _, b := range v.B {
			if t, ok := b.(*sym.Term); ok {
				t.Collect(vars)
			}
		}
	case []Value:
		for _, x := range v {
			collectValue(x, vars)
		}
	case Struct:
		for _, x := range v {
			collectValue(x, vars)
		}
	case Array:
		for _, x := range v {
			collectValue(x, vars)
		}
	case Tuple:
		for _, x := range v {
			collectValue(x, vars)
		}
	case Iface:
		collectValue(v.V, vars)
	case *Value:
		if v != nil {
			collectValue(*v, vars)
		}
	}
}

// failWith ends the path with a failure exhibited by a model of pc (and extra). When
// the ground facts about the real strconv refute every model, the path (or the
// violation) does not exist for the real functions and nothing is reported.
func (m *Machine) failWith(kind, msg string, extra *sym.Term) {
	nd, obs, ok := m.model(extra)
	if !ok {
		if !m.modelRefuted {
			// no model consistent with the real strconv could be exhibited: undecided
			m.inconcl = true
		}
		if extra == nil {
			if m.modelRefuted {
				m.end("infeasible", "path refuted by ground facts about strconv")
			}
			m.end("inconclusive", "no model for a failing path")
		}
		return
	}
	m.Stats.AssertsFailed++
	m.failure = &Failure{Kind: kind, Msg: msg, Nondets: nd, Obs: obs, MapOrders: m.mapOrders}
	if kind == "limit" {
		m.end("limit", msg)
	}
	m.end("assertfail", msg)
}

// Assert checks a harness assertion.
func (m *Machine) Assert(c Value, msg string) {
	switch c := c.(type) {
	case bool:
		if c {
			m.Stats.AssertsTrivial++
			return
		}
		m.failWith("assert", msg, nil)
	case *sym.Term:
		if v, ok := m.lookupKnown(c); ok && v {
			m.Stats.AssertsTrivial++
			return
		}
		m.Stats.AssertsSolver++
		neg := m.Ctx.Not(c)
		r, _ := m.Solver.Check(neg, nil)
		switch r {
		case sym.Unsat:
			m.setKnown(c, true)
			return
		case sym.Unknown:
			m.inconcl = true
			return
		}
		m.failWith("assert", msg, neg)
		// refuted by ground facts: holds for the real strconv
	default:
		panic(fmt.Sprintf("Assert: bad condition %T", c))
	}
}

// ---------------------------------------------------------------------------------
// exploration driver

// Explorer runs all paths below a trail prefix.
type Task struct {
	Prefix []entryLite
}

type entryLite struct {
	Val    int64
	Chosen bool
	IsVal  bool
}

func (m *Machine) resetPath() {
	m.globals = map[*ssa.Global]*Value{}
	m.tpos = 0
	m.nchosen = 0
	m.known = map[*sym.Term]bool{}
	m.steps = 0
	m.depth = 0
	m.nondets = m.nondets[:0]
	m.obs = m.obs[:0]
	m.covers = m.covers[:0]
	m.env = map[string]Value{}
	m.envOrder = nil
	m.limDepth = map[string]int{}
	m.limCalls = map[string]int{}
	m.curDepth = map[string]int{}
	m.curCalls = map[string]int{}
	m.nvar = 0
	m.nopaque = 0
	m.MapOrder = m.MapOrderDefault
	m.mapOrders = 0
	m.mapOrderProduct = 0
	m.inconcl = false
	m.failure = nil
	m.trackGlobals = false
	m.sp = 0
	m.forcedPos = 0
	m.gStores, m.gLoads = nil, nil
	m.ownedCells, m.ownedMaps = nil, nil
	if m.harnessFn == nil {
		m.harnessFn = map[*ssa.Function]bool{}
	}
}

// RunPath executes the entry function once along the current trail (extending it)
// and reports how the path ended.
func (m *Machine) RunPath(entry *ssa.Function, sample bool) (res PathResult) {
	m.resetPath()
	defer func() {
		m.Stats.Paths++
		m.Stats.Steps += m.steps
		if r := recover(); r != nil {
			switch r := r.(type) {
			case pathEnd:
				res.End, res.Detail = r.kind, r.detail
			case targetPanic:
				// a panic of the interpreted program escaped the harness entry
				res.End, res.Detail = "panic", m.render(r.v, nil)
				nd, obs, ok := m.model(nil)
				if !ok && m.modelRefuted {
					res.End = "infeasible"
				} else if !ok {
					m.inconcl = true
				} else {
					m.failure = &Failure{Kind: "panic", Msg: "uncaught panic: " + res.Detail, Nondets: nd, Obs: obs, MapOrders: m.mapOrders}
				}
			default:
				// a defect of the engine itself: the path is undecided, never a verdict
				res.End, res.Detail = "unsupported", fmt.Sprintf("engine panic: %v", r)
				if len(res.Detail) > 160 {
					res.Detail = res.Detail[:160]
				}
				m.depth = 0
			}
		}
		switch res.End {
		case "unsupported":
			m.Stats.Unsupported++
			m.Stats.UnsupportedWhy[res.Detail]++
		case "limit":
			m.Stats.LimitHits++
		}
		if m.inconcl {
			m.Stats.Inconclusive++
		}
		res.Failure = m.failure
		res.Covers = append([]string(nil), m.covers...)
		for _, c := range m.covers {
			m.Stats.Covers[c]++
		}
		if !sample && res.Failure == nil && res.End == "done" {
			for _, c := range m.covers {
				if strings.HasPrefix(c, "KNOWN:") && m.Stats.Covers[c] <= 2 {
					sample = true
				}
			}
		}
		if sample && res.Failure == nil && res.End == "done" {
			nd, obs, ok := m.model(nil)
			if ok {
				res.Nondets, res.Obs = nd, obs
			}
		}
	}()
	m.initGlobals()
	m.call(entry, nil)
	res.End = "done"
	return
}

// Backtrack moves the trail to the next unexplored alternative not above floor.
// It returns false when the subtree is exhausted.
func (m *Machine) Backtrack(floor int) bool {
	for i := len(m.trail) - 1; i >= floor; i-- {
		e := &m.trail[i]
		if len(e.alts) > 0 {
			e.val = e.alts[0]
			e.alts = e.alts[1:]
			m.trail = m.trail[:i+1]
			// solver: keep the literals of chosen entries before i
			n := 0
			for j := 0; j < i; j++ {
				if m.trail[j].chosen {
					n++
				}
			}
			if m.Solver.Level() > n {
				m.Solver.Pop(m.Solver.Level() - n)
			}
			return true
		}
	}
	return false
}

// SetPrefix installs a frozen prefix (no alternatives) as the start of the trail.
func (m *Machine) SetPrefix(p []entryLite) int {
	m.trail = m.trail[:0]
	for _, e := range p {
		m.trail = append(m.trail, entry{val: e.Val, chosen: e.Chosen, isVal: e.IsVal})
	}
	if m.Solver.Level() > 0 {
		m.Solver.Pop(m.Solver.Level())
	}
	return len(p)
}

// Donate splits off the shallowest open alternative at or above floor as a new task
// prefix, or returns nil.
func (m *Machine) Donate(floor int) []entryLite {
	for i := floor; i < len(m.trail); i++ {
		e := &m.trail[i]
		if len(e.alts) > 0 {
			alt := e.alts[len(e.alts)-1]
			e.alts = e.alts[:len(e.alts)-1]
			p := make([]entryLite, 0, i+1)
			for j := 0; j < i; j++ {
				p = append(p, entryLite{m.trail[j].val, m.trail[j].chosen, m.trail[j].isVal})
			}
			p = append(p, entryLite{alt, e.chosen, false})
			return p
		}
	}
	return nil
}

func (m *Machine) TrailVals() []int64 {
	out := make([]int64, len(m.trail))
	for i, e := range m.trail {
		out[i] = e.val
	}
	return out
}

// vptr is the data pointer of an ssa.Value (register tables are keyed by it: pointer
// hashing is much cheaper than interface hashing).
func vptr(v ssa.Value) unsafe.Pointer {
	return (*[2]unsafe.Pointer)(unsafe.Pointer(&v))[1]
}

func (fi *funcInfo) operand(v ssa.Value) opnd {
	switch v := v.(type) {
	case nil:
		return opnd{kind: opNil}
	case *ssa.Const:
		if v.Value == nil {
			switch v.Type().Underlying().(type) {
			case *types.Struct, *types.Array, *types.Tuple:
				return opnd{kind: opZero, t: v.Type()} // aggregates are mutable: a fresh one per use
			}
		}
		return opnd{kind: opConst, val: constValue0(v)}
	case *ssa.Function:
		return opnd{kind: opConst, val: v}
	case *ssa.Builtin:
		return opnd{kind: opConst, val: v}
	case *ssa.Global:
		return opnd{kind: opGlobal, g: v}
	}
	i, ok := fi.idx[vptr(v)]
	if !ok {
		panic(fmt.Sprintf("precompile: no register for %T %s", v, v.Name()))
	}
	return opnd{kind: opReg, idx: i}
}

// zeroOpnd: the zero value of t as an operand (shared when immutable).
func zeroOpnd(t types.Type) opnd {
	switch t.Underlying().(type) {
	case *types.Struct, *types.Array, *types.Tuple:
		return opnd{kind: opZero, t: t}
	}
	return opnd{kind: opConst, val: zero(t)}
}

// precompile resolves, once per function, the operands of every instruction.
func (fi *funcInfo) precompile(fn *ssa.Function) {
	for _, l := range fn.Locals {
		fi.localZero = append(fi.localZero, zeroOpnd(deref(l.Type())))
		fi.localReg = append(fi.localReg, fi.idx[vptr(l)])
	}
	fi.code = make([][]pinstr, len(fn.Blocks))
	fi.nphis = make([]int, len(fn.Blocks))
	for _, b := range fn.Blocks {
		code := make([]pinstr, len(b.Instrs))
		for i, in := range b.Instrs {
			pi := &code[i]
			pi.dst = -1
			if v, ok := in.(ssa.Value); ok {
				pi.dst = fi.idx[vptr(v)]
			}
			var vs []ssa.Value
			switch in := in.(type) {
			case *ssa.Phi:
				fi.nphis[b.Index]++
				vs = in.Edges
			case *ssa.UnOp:
				vs = []ssa.Value{in.X}
			case *ssa.BinOp:
				vs = []ssa.Value{in.X, in.Y}
			case *ssa.Call:
				vs = append([]ssa.Value{in.Call.Value}, in.Call.Args...)
			case *ssa.Defer:
				vs = append([]ssa.Value{in.Call.Value}, in.Call.Args...)
			case *ssa.Go:
				vs = append([]ssa.Value{in.Call.Value}, in.Call.Args...)
			case *ssa.ChangeInterface:
				vs = []ssa.Value{in.X}
			case *ssa.ChangeType:
				vs = []ssa.Value{in.X}
			case *ssa.Convert:
				vs = []ssa.Value{in.X}
			case *ssa.MakeInterface:
				vs = []ssa.Value{in.X}
			case *ssa.Extract:
				vs = []ssa.Value{in.Tuple}
			case *ssa.Slice:
				vs = []ssa.Value{in.X, in.Low, in.High, in.Max}
			case *ssa.Return:
				vs = in.Results
			case *ssa.Panic:
				vs = []ssa.Value{in.X}
			case *ssa.Store:
				vs = []ssa.Value{in.Addr, in.Val}
			case *ssa.If:
				vs = []ssa.Value{in.Cond}
			case *ssa.MakeSlice:
				vs = []ssa.Value{in.Len, in.Cap}
			case *ssa.Range:
				vs = []ssa.Value{in.X}
			case *ssa.Next:
				vs = []ssa.Value{in.Iter}
			case *ssa.FieldAddr:
				vs = []ssa.Value{in.X}
			case *ssa.Field:
				vs = []ssa.Value{in.X}
			case *ssa.IndexAddr:
				vs = []ssa.Value{in.X, in.Index}
			case *ssa.Index:
				vs = []ssa.Value{in.X, in.Index}
			case *ssa.Lookup:
				vs = []ssa.Value{in.X, in.Index}
			case *ssa.MapUpdate:
				vs = []ssa.Value{in.Map, in.Key, in.Value}
			case *ssa.TypeAssert:
				vs = []ssa.Value{in.X}
			case *ssa.MakeClosure:
				vs = in.Bindings
			case *ssa.Alloc:
				pi.ops = []opnd{zeroOpnd(deref(in.Type()))}
			}
			if len(vs) > 0 {
				pi.ops = make([]opnd, len(vs))
				for k, v := range vs {
					pi.ops[k] = fi.operand(v)
				}
			}
		}
		fi.code[b.Index] = code
	}
}
