package interp

import (
	"errors"
	"fmt"
	"go/types"
	"math"
	"sort"
	"strconv"
	"strings"
	"unicode"
	"unicode/utf8"

	"golang.org/x/tools/go/ssa"
	"verif/engine/sym"
)

type twState struct {
	out Iface
	buf []Value // pending pieces
}

func (m *Machine) errorsNew(msg Value) Value {
	pkg := m.P.Prog.ImportedPackage("errors")
	if pkg == nil {
		m.unsupported("package errors not in program")
	}
	named := pkg.Type("errorString").Type()
	p := new(Value)
	*p = Struct{msg}
	return Iface{T: types.NewPointer(named), V: p}
}

func (m *Machine) newOpaque(what string, nonEmpty bool) *Opaque {
	m.nopaque++
	return &Opaque{ID: m.nopaque, NonEmpty: nonEmpty, What: what}
}

func isSpaceByte(b byte) bool {
	switch b {
	case ' ', '\t', '\n', '\v', '\f', '\r':
		return true
	}
	return false
}

// spaceCond: is the (ASCII) byte a blank? Non-ASCII bytes end the path as outside the
// modelled domain of the intrinsic.
func (m *Machine) isSpace(b Value, where string) bool {
	switch b := b.(type) {
	case int64:
		if b >= 0x80 {
			m.unsupported(where + " on non-ASCII byte")
		}
		return isSpaceByte(byte(b))
	case *sym.Term:
		c := m.Ctx
		if !m.Branch(c.Bin(sym.OpUlt, b, c.BV(8, 0x80))) {
			m.unsupported(where + " on non-ASCII byte")
		}
		// blanks: 0x09..0x0d and 0x20
		in := c.And(c.Bin(sym.OpUle, c.BV(8, 9), b), c.Bin(sym.OpUle, b, c.BV(8, 13)))
		return m.Branch(c.Or(in, c.Eq(b, c.BV(8, ' '))))
	case *Opaque:
		m.unsupported(where + " on opaque string")
	}
	panic("isSpace")
}

func (m *Machine) hasPrefix(s, p Value) Value {
	ps, pp := strPieces(s), strPieces(p)
	for _, x := range pp {
		if _, ok := x.(*Opaque); ok {
			m.unsupported("HasPrefix with opaque prefix")
		}
	}
	if len(pp) == 0 {
		return true
	}
	// s may contain opaque pieces after the compared part
	if len(ps) < len(pp) {
		for _, x := range ps {
			if _, ok := x.(*Opaque); ok {
				m.unsupported("HasPrefix on opaque string")
			}
		}
		return false
	}
	var acc Value = true
	for i := range pp {
		if _, ok := ps[i].(*Opaque); ok {
			m.unsupported("HasPrefix on opaque string")
		}
		acc = m.and(acc, m.byteEq(ps[i], pp[i]))
		if b, ok := acc.(bool); ok && !b {
			return false
		}
	}
	return acc
}

func (m *Machine) hasSuffix(s, p Value) Value {
	ps, pp := strPieces(s), strPieces(p)
	if len(ps) < len(pp) {
		return false
	}
	return m.strEq(mkStr(ps[len(ps)-len(pp):]), mkStr(pp))
}

func (m *Machine) condBool(v Value) bool {
	switch v := v.(type) {
	case bool:
		return v
	case *sym.Term:
		return m.Branch(v)
	}
	panic("condBool")
}

func (m *Machine) trimSpace(s Value) Value {
	if cs, ok := s.(string); ok {
		return strings.TrimSpace(cs)
	}
	p := strPieces(s)
	lo, hi := 0, len(p)
	for lo < hi && m.isSpace(p[lo], "strings.TrimSpace") {
		lo++
	}
	for hi > lo && m.isSpace(p[hi-1], "strings.TrimSpace") {
		hi--
	}
	return mkStr(p[lo:hi:hi])
}

func (m *Machine) fields(s Value) []Value {
	var out []Value
	if cs, ok := s.(string); ok {
		for _, f := range strings.Fields(cs) {
			out = append(out, f)
		}
		return out
	}
	p := strPieces(s)
	start := -1
	for i := 0; i < len(p); i++ {
		if m.isSpace(p[i], "strings.Fields") {
			if start >= 0 {
				out = append(out, mkStr(p[start:i:i]))
				start = -1
			}
		} else if start < 0 {
			start = i
		}
	}
	if start >= 0 {
		out = append(out, mkStr(p[start:len(p):len(p)]))
	}
	return out
}

// split on a one-byte (or concrete multi-byte) separator; n < 0: all.
func (m *Machine) split(s, sep Value, n int64) []Value {
	if cs, ok := s.(string); ok {
		if csep, ok := sep.(string); ok {
			var out []Value
			for _, f := range strings.SplitN(cs, csep, int(n)) {
				out = append(out, f)
			}
			return out
		}
	}
	sp := strPieces(sep)
	p := strPieces(s)
	if len(sp) == 0 {
		m.unsupported("strings.Split with empty separator on symbolic string")
	}
	if n == 0 {
		return nil
	}
	var out []Value
	start := 0
	i := 0
	for i+len(sp) <= len(p) {
		if n > 0 && int64(len(out)) == n-1 {
			break
		}
		var acc Value = true
		for j := range sp {
			if _, ok := p[i+j].(*Opaque); ok {
				m.unsupported("strings.Split on opaque string")
			}
			acc = m.and(acc, m.byteEq(p[i+j], sp[j]))
		}
		if m.condBool(acc) {
			out = append(out, mkStr(p[start:i:i]))
			i += len(sp)
			start = i
		} else {
			i++
		}
	}
	out = append(out, mkStr(p[start:len(p):len(p)]))
	return out
}

func strsToSlice(xs []Value) Value {
	if xs == nil {
		return []Value(nil)
	}
	return xs
}

// ---------------------------------------------------------------------------------
// fmt

type fmtArg struct {
	v      Value       // string value / int / bool / float
	native interface{} // Go value for the real fmt when concrete
	conc   bool
	isStr  bool
}

func (m *Machine) fmtArgOf(a Value) fmtArg {
	i, ok := a.(Iface)
	if !ok {
		return fmtArg{v: a}
	}
	if i.T == nil {
		return fmtArg{native: nil, conc: true}
	}
	// error / Stringer
	if _, isBasic := i.T.Underlying().(*types.Basic); !isBasic {
		if m.hasMethod(i.T, "Error") {
			s := m.invoke(i, "Error")
			return m.strArg(s)
		}
		if m.hasMethod(i.T, "String") {
			s := m.invoke(i, "String")
			return m.strArg(s)
		}
		return fmtArg{v: i.V}
	}
	b := i.T.Underlying().(*types.Basic)
	if m.hasMethod(i.T, "Error") {
		return m.strArg(m.invoke(i, "Error"))
	}
	if m.hasMethod(i.T, "String") {
		return m.strArg(m.invoke(i, "String"))
	}
	switch x := i.V.(type) {
	case string:
		return fmtArg{v: x, native: x, conc: true, isStr: true}
	case *SStr:
		return fmtArg{v: x, isStr: true}
	case bool:
		return fmtArg{v: x, native: x, conc: true}
	case float64:
		return fmtArg{v: x, native: x, conc: true}
	case int64:
		var n interface{}
		switch b.Kind() {
		case types.Uint8:
			n = uint8(x)
		case types.Uint16:
			n = uint16(x)
		case types.Uint32:
			n = uint32(x)
		case types.Uint64, types.Uint, types.Uintptr:
			n = uint64(x)
		case types.Int32:
			n = int32(x)
		case types.Int8:
			n = int8(x)
		case types.Int16:
			n = int16(x)
		default:
			n = int(x)
		}
		return fmtArg{v: x, native: n, conc: true}
	}
	return fmtArg{v: i.V}
}

func (m *Machine) strArg(s Value) fmtArg {
	if cs, ok := s.(string); ok {
		return fmtArg{v: cs, native: cs, conc: true, isStr: true}
	}
	return fmtArg{v: s, isStr: true}
}

func (m *Machine) sprintf(format Value, args []Value) Value {
	f, ok := format.(string)
	if !ok {
		m.unsupported("fmt with symbolic format string")
	}
	fa := make([]fmtArg, len(args))
	all := true
	for i, a := range args {
		fa[i] = m.fmtArgOf(a)
		if !fa[i].conc {
			all = false
		}
	}
	if all {
		na := make([]interface{}, len(fa))
		for i := range fa {
			na[i] = fa[i].native
		}
		return fmt.Sprintf(f, na...)
	}
	var out []Value
	lit := func(s string) {
		for i := 0; i < len(s); i++ {
			out = append(out, int64(s[i]))
		}
	}
	ai := 0
	for i := 0; i < len(f); i++ {
		if f[i] != '%' {
			out = append(out, int64(f[i]))
			continue
		}
		j := i + 1
		for j < len(f) && strings.IndexByte("+-# 0123456789.", f[j]) >= 0 {
			j++
		}
		if j >= len(f) {
			lit(f[i:])
			break
		}
		verb := f[j]
		spec := f[i : j+1]
		i = j
		if verb == '%' {
			out = append(out, int64('%'))
			continue
		}
		if ai >= len(fa) {
			lit("%!" + string(verb) + "(MISSING)")
			continue
		}
		a := fa[ai]
		ai++
		switch {
		case a.conc:
			lit(fmt.Sprintf(spec, a.native))
		case a.isStr && (spec == "%s" || spec == "%v"):
			out = append(out, strPieces(a.v)...)
		case a.isStr:
			out = append(out, m.newOpaque("fmt "+spec+" of symbolic string", true))
		default:
			out = append(out, m.newOpaque("fmt "+spec+" of symbolic or composite value", true))
		}
	}
	return mkStr(out)
}

func (m *Machine) sprint(args []Value, ln bool) Value {
	var out []Value
	for i, a := range args {
		fa := m.fmtArgOf(a)
		if ln && i > 0 {
			out = append(out, int64(' '))
		}
		switch {
		case fa.isStr:
			out = append(out, strPieces(fa.v)...)
		case fa.conc:
			s := fmt.Sprint(fa.native)
			for k := 0; k < len(s); k++ {
				out = append(out, int64(s[k]))
			}
		default:
			out = append(out, m.newOpaque("fmt.Sprint of symbolic or composite value", true))
		}
	}
	if ln {
		out = append(out, int64('\n'))
	}
	return mkStr(out)
}

// writeTo sends a string to an io.Writer value.
func (m *Machine) writeTo(w Value, s Value) Value {
	wi := w.(Iface)
	if wi.T == nil {
		m.rtPanic("invalid memory address or nil pointer dereference (nil io.Writer)")
	}
	if p, ok := wi.V.(*Value); ok && p != nil {
		if nat, ok := (*p).(*Native); ok && nat.Kind == "tabwriter" {
			st := nat.X.(*twState)
			st.buf = append(st.buf, strPieces(s)...)
			return Tuple{int64(len(strPieces(s))), Iface{}}
		}
	}
	p := strPieces(s)
	bs := make([]Value, len(p))
	copy(bs, p)
	r := m.invoke(wi, "Write", bs)
	return r
}

// ---------------------------------------------------------------------------------

// strconvSentinel returns the cell of strconv.ErrSyntax / strconv.ErrRange (package
// strconv is not initialised in the engine: the two sentinels are created on demand).
func (m *Machine) strconvSentinel(name string) *Value {
	pkg := m.P.Prog.ImportedPackage("strconv")
	if pkg == nil {
		m.unsupported("package strconv not in program")
	}
	g, _ := pkg.Members[name].(*ssa.Global)
	if g == nil {
		m.unsupported("strconv." + name + " not found")
	}
	cell := m.global(g)
	if i, ok := (*cell).(Iface); ok && i.T == nil {
		msg := "invalid syntax"
		if name == "ErrRange" {
			msg = "value out of range"
		}
		*cell = m.errorsNew(msg)
	}
	return cell
}

// strconvErr builds the *strconv.NumError a failed parse returns; rangeErr tells
// whether it wraps ErrRange (else ErrSyntax).
func (m *Machine) strconvErr(fn string, s Value, rangeErr bool) Value {
	pkg := m.P.Prog.ImportedPackage("strconv")
	if pkg == nil {
		m.unsupported("package strconv not in program")
	}
	named := pkg.Type("NumError").Type()
	which := "ErrSyntax"
	if rangeErr {
		which = "ErrRange"
	}
	p := new(Value)
	*p = Struct{fn, s, *m.strconvSentinel(which)}
	return Iface{T: types.NewPointer(named), V: p}
}

// isRangeErr decides (for a symbolic token that failed to parse) whether the failure is
// a range error, through one more uninterpreted function.
func (m *Machine) isRangeErr(sfx string, ua []*sym.Term) bool {
	return m.Branch(m.Ctx.UF("Parse"+sfx, 0, ua...))
}

// ufOkCond strengthens the uninterpreted "parses" predicate of a strconv function with
// what is syntactically necessary for the real function to succeed (every byte belongs
// to the alphabet of the number syntax; ParseBool's finite set of spellings exactly).
// The real functions satisfy ok => syntax, so ok AND syntax is the same predicate for
// them; the engine no longer explores branches in which, say, "-o" parses as a float.
func (m *Machine) ufOkCond(kind string, base int64, okT *sym.Term, ua []*sym.Term) *sym.Term {
	c := m.Ctx
	if len(ua) == 0 {
		return c.Bool(false)
	}
	in := func(b *sym.Term, set string) *sym.Term {
		if b.Op == sym.OpConst {
			return c.Bool(strings.IndexByte(set, byte(b.K)) >= 0)
		}
		acc := c.Bool(false)
		// ranges of consecutive bytes of the sorted set
		bs := []byte(set)
		sort.Slice(bs, func(i, j int) bool { return bs[i] < bs[j] })
		for i := 0; i < len(bs); {
			j := i
			for j+1 < len(bs) && bs[j+1] <= bs[j]+1 {
				j++
			}
			if i == j {
				acc = c.Or(acc, c.Eq(b, c.BV(8, uint64(bs[i]))))
			} else {
				acc = c.Or(acc, c.And(c.Bin(sym.OpUle, c.BV(8, uint64(bs[i])), b), c.Bin(sym.OpUle, b, c.BV(8, uint64(bs[j])))))
			}
			i = j + 1
		}
		return acc
	}
	syn := c.Bool(true)
	switch kind {
	case "int":
		switch base {
		case 10:
			for i, b := range ua {
				if i == 0 && len(ua) > 1 {
					syn = c.And(syn, in(b, "0123456789+-"))
				} else {
					syn = c.And(syn, in(b, "0123456789"))
				}
			}
		case 0:
			for i, b := range ua {
				set := "0123456789abcdefABCDEFxXoO_"
				if i == 0 {
					set += "+-"
				}
				syn = c.And(syn, in(b, set))
			}
		default:
			return okT
		}
	case "float":
		for _, b := range ua {
			syn = c.And(syn, in(b, "0123456789+-._eEpPxXabcdfABCDFiInNtTyY"))
		}
	case "bool":
		syn = c.Bool(false)
		for _, w := range []string{"1", "t", "T", "TRUE", "true", "True", "0", "f", "F", "FALSE", "false", "False"} {
			if len(w) != len(ua) {
				continue
			}
			eq := c.Bool(true)
			for i := range ua {
				eq = c.And(eq, c.Eq(ua[i], c.BV(8, uint64(w[i]))))
			}
			syn = c.Or(syn, eq)
		}
	}
	return c.And(okT, syn)
}

func (m *Machine) ufArgs(s Value) ([]*sym.Term, bool) {
	p := strPieces(s)
	out := make([]*sym.Term, len(p))
	for i, b := range p {
		switch b := b.(type) {
		case int64:
			out[i] = m.Ctx.BV(8, uint64(b))
		case *sym.Term:
			out[i] = b
		default:
			return nil, false
		}
	}
	return out, true
}

func (m *Machine) intrinsic(caller *frame, fn *ssa.Function, fi *funcInfo, args []Value) (Value, bool) {
	name := fi.name
	if fn.Blocks == nil && fn.Pkg != nil && m.inRoot(fn.Pkg) {
		if i := strings.LastIndex(name, "."); i >= 0 {
			if r, ok := m.harnessIntrinsic(name[i+1:], args); ok {
				return r, true
			}
		}
	}
	switch name {
	case "strings.HasPrefix":
		m.Stats.Intrinsics[name] = true
		return m.hasPrefix(args[0], args[1]), true
	case "strings.HasSuffix":
		m.Stats.Intrinsics[name] = true
		return m.hasSuffix(args[0], args[1]), true
	case "strings.TrimPrefix":
		m.Stats.Intrinsics[name] = true
		if m.condBool(m.hasPrefix(args[0], args[1])) {
			p := strPieces(args[0])
			n := len(strPieces(args[1]))
			return mkStr(p[n:len(p):len(p)]), true
		}
		return args[0], true
	case "strings.TrimSuffix":
		m.Stats.Intrinsics[name] = true
		if m.condBool(m.hasSuffix(args[0], args[1])) {
			p := strPieces(args[0])
			n := len(p) - len(strPieces(args[1]))
			return mkStr(p[:n:n]), true
		}
		return args[0], true
	case "strings.TrimSpace":
		m.Stats.Intrinsics[name] = true
		return m.trimSpace(args[0]), true
	case "strings.Fields":
		m.Stats.Intrinsics[name] = true
		return strsToSlice(m.fields(args[0])), true
	case "strings.Split":
		m.Stats.Intrinsics[name] = true
		return strsToSlice(m.split(args[0], args[1], -1)), true
	case "strings.SplitN":
		m.Stats.Intrinsics[name] = true
		return strsToSlice(m.split(args[0], args[1], m.asInt(args[2]))), true
	case "strings.Join":
		m.Stats.Intrinsics[name] = true
		elems := args[0].([]Value)
		sep := strPieces(args[1])
		var out []Value
		for i, e := range elems {
			if i > 0 {
				out = append(out, sep...)
			}
			out = append(out, strPieces(e)...)
		}
		return mkStr(out), true
	case "strings.Contains", "strings.Index":
		m.Stats.Intrinsics[name] = true
		s, sub := strPieces(args[0]), strPieces(args[1])
		idx := int64(-1)
		sawOpaque := false
		for i := 0; i+len(sub) <= len(s); i++ {
			if _, ok := s[i].(*Opaque); ok {
				sawOpaque = true
				continue
			}
			win := s[i : i+len(sub) : i+len(sub)]
			clean := true
			for _, b := range win {
				if _, ok := b.(*Opaque); ok {
					clean = false
					break
				}
			}
			if !clean {
				continue
			}
			if m.condBool(m.strEq(mkStr(win), mkStr(sub))) {
				idx = int64(i)
				break
			}
		}
		for _, b := range s {
			if _, ok := b.(*Opaque); ok {
				sawOpaque = true
			}
		}
		if name == "strings.Contains" {
			if idx < 0 && sawOpaque {
				m.unsupported("strings.Contains: not found in the known parts of a string with opaque content")
			}
			return idx >= 0, true
		}
		if sawOpaque {
			m.unsupported("strings.Index on a string with opaque content")
		}
		return idx, true
	case "strings.IndexByte":
		m.Stats.Intrinsics[name] = true
		s := strPieces(args[0])
		for i := range s {
			if m.condBool(m.byteEq(s[i], args[1])) {
				return int64(i), true
			}
		}
		return int64(-1), true
	case "strings.Repeat":
		m.Stats.Intrinsics[name] = true
		n := m.asInt(args[1])
		var out []Value
		for i := int64(0); i < n; i++ {
			out = append(out, strPieces(args[0])...)
		}
		return mkStr(out), true
	case "strings.FieldsFunc", "strings.IndexFunc", "strings.LastIndexFunc", "strings.TrimFunc", "strings.TrimLeftFunc", "strings.TrimRightFunc", "strings.ContainsFunc":
		m.Stats.Intrinsics[name] = true
		p := strPieces(args[0])
		// the callback's verdict per byte (ASCII only: one rune per byte)
		hit := make([]bool, len(p))
		for i, b := range p {
			var r Value
			switch b := b.(type) {
			case int64:
				if b >= 0x80 {
					m.unsupported(name + " over non-ASCII bytes")
				}
				r = b
			case *sym.Term:
				if !m.Branch(m.Ctx.Bin(sym.OpUlt, b, m.Ctx.BV(8, 0x80))) {
					m.unsupported(name + " over non-ASCII bytes")
				}
				r = m.Ctx.Zext(32, b)
			default:
				m.unsupported(name + " over an opaque string")
			}
			hit[i] = m.condBool(m.call(args[1], []Value{r}))
		}
		switch name {
		case "strings.FieldsFunc":
			var out []Value
			start := -1
			for i := range p {
				if hit[i] {
					if start >= 0 {
						out = append(out, mkStr(p[start:i:i]))
						start = -1
					}
				} else if start < 0 {
					start = i
				}
			}
			if start >= 0 {
				out = append(out, mkStr(p[start:len(p):len(p)]))
			}
			return strsToSlice(out), true
		case "strings.IndexFunc", "strings.ContainsFunc":
			idx := int64(-1)
			for i := range p {
				if hit[i] {
					idx = int64(i)
					break
				}
			}
			if name == "strings.ContainsFunc" {
				return idx >= 0, true
			}
			return idx, true
		case "strings.LastIndexFunc":
			idx := int64(-1)
			for i := len(p) - 1; i >= 0; i-- {
				if hit[i] {
					idx = int64(i)
					break
				}
			}
			return idx, true
		}
		lo, hi := 0, len(p)
		if name != "strings.TrimRightFunc" {
			for lo < hi && hit[lo] {
				lo++
			}
		}
		if name != "strings.TrimLeftFunc" {
			for hi > lo && hit[hi-1] {
				hi--
			}
		}
		return mkStr(p[lo:hi:hi]), true
	case "strings.Map":
		m.Stats.Intrinsics[name] = true
		s := strPieces(args[1])
		var out []Value
		for _, b := range s {
			var r Value
			switch b := b.(type) {
			case int64:
				if b >= 0x80 {
					return mkStr([]Value{m.newOpaque("strings.Map over non-ASCII", false)}), true
				}
				r = b
			case *sym.Term:
				if !m.Branch(m.Ctx.Bin(sym.OpUlt, b, m.Ctx.BV(8, 0x80))) {
					return mkStr([]Value{m.newOpaque("strings.Map over non-ASCII", false)}), true
				}
				r = m.Ctx.Zext(32, b)
			default:
				return mkStr([]Value{m.newOpaque("strings.Map over opaque", false)}), true
			}
			res := m.call(args[0], []Value{r})
			switch res := res.(type) {
			case int64:
				if res < 0 {
					continue
				}
				if res >= 0x80 {
					out = append(out, strPieces(string(rune(res)))...)
				} else {
					out = append(out, res)
				}
			case *sym.Term:
				if m.Branch(m.Ctx.Bin(sym.OpUlt, res, m.Ctx.BV(32, 0x80))) {
					out = append(out, m.Ctx.Extract(7, 0, res))
				} else {
					out = append(out, m.newOpaque("strings.Map result rune", false))
				}
			}
		}
		return mkStr(out), true
	case "strings.ToUpper", "strings.ToLower":
		m.Stats.Intrinsics[name] = true
		if s, ok := args[0].(string); ok {
			if name == "strings.ToUpper" {
				return strings.ToUpper(s), true
			}
			return strings.ToLower(s), true
		}
		var out []Value
		for _, b := range strPieces(args[0]) {
			out = append(out, m.asciiCase(b, name == "strings.ToUpper", name))
		}
		return mkStr(out), true
	case "strings.EqualFold":
		m.Stats.Intrinsics[name] = true
		if a, ok := args[0].(string); ok {
			if b, ok := args[1].(string); ok {
				return strings.EqualFold(a, b), true
			}
		}
		pa, pb := strPieces(args[0]), strPieces(args[1])
		if len(pa) != len(pb) {
			// (ASCII: folding never changes the length; non-ASCII ends the path below)
			for _, b := range append(append([]Value{}, pa...), pb...) {
				m.asciiCase(b, false, name)
			}
			return false, true
		}
		var acc Value = true
		for i := range pa {
			acc = m.and(acc, m.byteEq(m.asciiCase(pa[i], false, name), m.asciiCase(pb[i], false, name)))
		}
		return acc, true
	case "strings.Count":
		m.Stats.Intrinsics[name] = true
		s, sub := strPieces(args[0]), strPieces(args[1])
		if len(sub) == 0 {
			m.unsupported("strings.Count with empty substring")
		}
		n := int64(0)
		for i := 0; i+len(sub) <= len(s); {
			if m.condBool(m.strEq(mkStr(s[i:i+len(sub):i+len(sub)]), mkStr(sub))) {
				n++
				i += len(sub)
			} else {
				i++
			}
		}
		return n, true
	case "strings.LastIndex":
		m.Stats.Intrinsics[name] = true
		s, sub := strPieces(args[0]), strPieces(args[1])
		for i := len(s) - len(sub); i >= 0; i-- {
			if m.condBool(m.strEq(mkStr(s[i:i+len(sub):i+len(sub)]), mkStr(sub))) {
				return int64(i), true
			}
		}
		return int64(-1), true
	case "strings.ContainsRune", "strings.IndexRune":
		m.Stats.Intrinsics[name] = true
		r, ok := args[1].(int64)
		if !ok || r >= 0x80 {
			m.unsupported(name + " with symbolic or non-ASCII rune")
		}
		idx := int64(-1)
		for i, b := range strPieces(args[0]) {
			if m.condBool(m.byteEq(b, r)) {
				idx = int64(i)
				break
			}
		}
		if name == "strings.ContainsRune" {
			return idx >= 0, true
		}
		return idx, true
	case "strings.ContainsAny", "strings.IndexAny":
		m.Stats.Intrinsics[name] = true
		set, ok := args[1].(string)
		if !ok {
			m.unsupported(name + " with symbolic character set")
		}
		idx := int64(-1)
	outerAny:
		for i, b := range strPieces(args[0]) {
			for k := 0; k < len(set); k++ {
				if set[k] >= 0x80 {
					m.unsupported(name + " with non-ASCII set")
				}
				if m.condBool(m.byteEq(b, int64(set[k]))) {
					idx = int64(i)
					break outerAny
				}
			}
		}
		if name == "strings.ContainsAny" {
			return idx >= 0, true
		}
		return idx, true
	case "strings.Trim", "strings.TrimLeft", "strings.TrimRight":
		m.Stats.Intrinsics[name] = true
		set, ok := args[1].(string)
		if !ok {
			m.unsupported(name + " with symbolic cutset")
		}
		inSet := func(b Value) bool {
			for k := 0; k < len(set); k++ {
				if set[k] >= 0x80 {
					m.unsupported(name + " with non-ASCII cutset")
				}
				if m.condBool(m.byteEq(b, int64(set[k]))) {
					return true
				}
			}
			return false
		}
		p := strPieces(args[0])
		lo, hi := 0, len(p)
		if name != "strings.TrimRight" {
			for lo < hi && inSet(p[lo]) {
				lo++
			}
		}
		if name != "strings.TrimLeft" {
			for hi > lo && inSet(p[hi-1]) {
				hi--
			}
		}
		return mkStr(p[lo:hi:hi]), true
	case "strings.Replace", "strings.ReplaceAll":
		m.Stats.Intrinsics[name] = true
		s, old, nw := strPieces(args[0]), strPieces(args[1]), strPieces(args[2])
		limit := int64(-1)
		if name == "strings.Replace" {
			limit = m.asInt(args[3])
		}
		if len(old) == 0 {
			m.unsupported(name + " with empty old string")
		}
		var out []Value
		done := int64(0)
		for i := 0; i < len(s); {
			if (limit < 0 || done < limit) && i+len(old) <= len(s) && m.condBool(m.strEq(mkStr(s[i:i+len(old):i+len(old)]), mkStr(old))) {
				out = append(out, nw...)
				i += len(old)
				done++
			} else {
				out = append(out, s[i])
				i++
			}
		}
		return mkStr(out), true
	case "strings.Cut":
		m.Stats.Intrinsics[name] = true
		s, sep := strPieces(args[0]), strPieces(args[1])
		for i := 0; i+len(sep) <= len(s); i++ {
			if m.condBool(m.strEq(mkStr(s[i:i+len(sep):i+len(sep)]), mkStr(sep))) {
				return Tuple{mkStr(s[:i:i]), mkStr(s[i+len(sep) : len(s) : len(s)]), true}, true
			}
		}
		return Tuple{args[0], "", false}, true
	case "strconv.Atoi":
		m.Stats.Intrinsics[name] = true
		if s, ok := args[0].(string); ok {
			v, err := strconv.Atoi(s)
			if err != nil {
				return Tuple{int64(v), m.strconvErr("Atoi", args[0], errors.Is(err, strconv.ErrRange))}, true
			}
			return Tuple{int64(v), Iface{}}, true
		}
		ua, ok := m.ufArgs(args[0])
		if !ok {
			m.unsupported("strconv.Atoi on opaque string")
		}
		sfx := fmt.Sprintf("b10_s0_L%d", len(ua))
		if m.Branch(m.ufOkCond("int", 10, m.Ctx.UF("ParseInt_ok_"+sfx, 0, ua...), ua)) {
			return Tuple{m.Ctx.UF("ParseInt_val_"+sfx, 64, ua...), Iface{}}, true
		}
		return Tuple{m.Ctx.UF("ParseInt_errval_"+sfx, 64, ua...), m.strconvErr("Atoi", args[0], m.isRangeErr("Int_range_"+sfx, ua))}, true
	case "unicode.IsUpper", "unicode.IsLower", "unicode.IsDigit", "unicode.IsLetter", "unicode.IsSpace":
		m.Stats.Intrinsics[name] = true
		switch r := args[0].(type) {
		case int64:
			switch name {
			case "unicode.IsUpper":
				return unicode.IsUpper(rune(r)), true
			case "unicode.IsLower":
				return unicode.IsLower(rune(r)), true
			case "unicode.IsDigit":
				return unicode.IsDigit(rune(r)), true
			case "unicode.IsLetter":
				return unicode.IsLetter(rune(r)), true
			}
			return unicode.IsSpace(rune(r)), true
		case *sym.Term:
			c := m.Ctx
			if !m.Branch(c.Bin(sym.OpUlt, r, c.BV(r.W, 0x80))) {
				m.unsupported(name + " on a symbolic non-ASCII rune")
			}
			rng := func(lo, hi byte) *sym.Term {
				return c.And(c.Bin(sym.OpUle, c.BV(r.W, uint64(lo)), r), c.Bin(sym.OpUle, r, c.BV(r.W, uint64(hi))))
			}
			switch name {
			case "unicode.IsUpper":
				return rng('A', 'Z'), true
			case "unicode.IsLower":
				return rng('a', 'z'), true
			case "unicode.IsDigit":
				return rng('0', '9'), true
			case "unicode.IsLetter":
				return c.Or(rng('A', 'Z'), rng('a', 'z')), true
			}
			return c.Or(rng(9, 13), c.Eq(r, c.BV(r.W, ' '))), true
		}

	case "strconv.FormatFloat":
		m.Stats.Intrinsics[name] = true
		if f, ok := args[0].(float64); ok {
			return strconv.FormatFloat(f, byte(m.asInt(args[1])), int(m.asInt(args[2])), int(m.asInt(args[3]))), true
		}
		return mkStr([]Value{m.newOpaque("strconv.FormatFloat of symbolic float", true)}), true
	case "strconv.FormatBool":
		m.Stats.Intrinsics[name] = true
		if b, ok := args[0].(bool); ok {
			return strconv.FormatBool(b), true
		}
		return mkStr([]Value{m.newOpaque("strconv.FormatBool of symbolic bool", true)}), true
	case "strconv.FormatInt":
		m.Stats.Intrinsics[name] = true
		if x, ok := args[0].(int64); ok {
			return strconv.FormatInt(x, int(m.asInt(args[1]))), true
		}
		return mkStr([]Value{m.newOpaque("strconv.FormatInt of symbolic int", true)}), true
	case "unicode/utf8.RuneCountInString":
		m.Stats.Intrinsics[name] = true
		if cs, ok := args[0].(string); ok {
			return int64(utf8.RuneCountInString(cs)), true
		}
		// symbolic bytes: one rune per byte when every byte is ASCII
		p := strPieces(args[0])
		for _, b := range p {
			switch b := b.(type) {
			case int64:
				if b >= 0x80 {
					m.unsupported("utf8.RuneCountInString over non-ASCII symbolic string")
				}
			case *sym.Term:
				if !m.Branch(m.Ctx.Bin(sym.OpUlt, b, m.Ctx.BV(8, 0x80))) {
					m.unsupported("utf8.RuneCountInString over non-ASCII symbolic string")
				}
			default:
				m.unsupported("utf8.RuneCountInString over an opaque string")
			}
		}
		return int64(len(p)), true
	case "strconv.Itoa":
		if x, ok := args[0].(int64); ok {
			return strconv.Itoa(int(x)), true
		}
		return mkStr([]Value{m.newOpaque("strconv.Itoa of symbolic int", true)}), true
	case "strconv.Quote":
		if s, ok := args[0].(string); ok {
			return strconv.Quote(s), true
		}
		return mkStr([]Value{m.newOpaque("strconv.Quote of symbolic string", true)}), true
	case "strconv.ParseBool":
		m.Stats.Intrinsics[name] = true
		if s, ok := args[0].(string); ok {
			b, err := strconv.ParseBool(s)
			if err != nil {
				return Tuple{false, m.strconvErr("ParseBool", args[0], false)}, true
			}
			return Tuple{b, Iface{}}, true
		}
		ua, ok := m.ufArgs(args[0])
		if !ok {
			m.unsupported("strconv.ParseBool on opaque string")
		}
		okT := m.ufOkCond("bool", 0, m.Ctx.UF(fmt.Sprintf("ParseBool_ok_L%d", len(ua)), 0, ua...), ua)
		if m.Branch(okT) {
			return Tuple{m.Ctx.UF(fmt.Sprintf("ParseBool_val_L%d", len(ua)), 0, ua...), Iface{}}, true
		}
		return Tuple{false, m.strconvErr("ParseBool", args[0], false)}, true
	case "strconv.ParseInt":
		m.Stats.Intrinsics[name] = true
		base, bits := m.asInt(args[1]), m.asInt(args[2])
		if s, ok := args[0].(string); ok {
			v, err := strconv.ParseInt(s, int(base), int(bits))
			if err != nil {
				return Tuple{v, m.strconvErr("ParseInt", args[0], errors.Is(err, strconv.ErrRange))}, true
			}
			return Tuple{v, Iface{}}, true
		}
		ua, ok := m.ufArgs(args[0])
		if !ok {
			m.unsupported("strconv.ParseInt on opaque string")
		}
		sfx := fmt.Sprintf("b%d_s%d_L%d", base, bits, len(ua))
		okT := m.ufOkCond("int", base, m.Ctx.UF("ParseInt_ok_"+sfx, 0, ua...), ua)
		if m.Branch(okT) {
			return Tuple{m.Ctx.UF("ParseInt_val_"+sfx, 64, ua...), Iface{}}, true
		}
		return Tuple{m.Ctx.UF("ParseInt_errval_"+sfx, 64, ua...), m.strconvErr("ParseInt", args[0], m.isRangeErr("Int_range_"+sfx, ua))}, true
	case "strconv.ParseFloat":
		m.Stats.Intrinsics[name] = true
		bits := m.asInt(args[1])
		if s, ok := args[0].(string); ok {
			v, err := strconv.ParseFloat(s, int(bits))
			if err != nil {
				return Tuple{v, m.strconvErr("ParseFloat", args[0], errors.Is(err, strconv.ErrRange))}, true
			}
			return Tuple{v, Iface{}}, true
		}
		ua, ok := m.ufArgs(args[0])
		if !ok {
			m.unsupported("strconv.ParseFloat on opaque string")
		}
		sfx := fmt.Sprintf("s%d_L%d", bits, len(ua))
		okT := m.ufOkCond("float", 0, m.Ctx.UF("ParseFloat_ok_"+sfx, 0, ua...), ua)
		if m.Branch(okT) {
			return Tuple{m.Ctx.UF("ParseFloat_val_"+sfx, 64, ua...), Iface{}}, true
		}
		return Tuple{m.Ctx.UF("ParseFloat_errval_"+sfx, 64, ua...), m.strconvErr("ParseFloat", args[0], m.isRangeErr("Float_range_"+sfx, ua))}, true

	case "fmt.Sprintf":
		m.Stats.Intrinsics[name] = true
		return m.sprintf(args[0], args[1].([]Value)), true
	case "fmt.Errorf":
		m.Stats.Intrinsics[name] = true
		return m.errorsNew(m.sprintf(args[0], args[1].([]Value))), true
	case "fmt.Sprint":
		m.Stats.Intrinsics[name] = true
		return m.sprint(args[0].([]Value), false), true
	case "fmt.Sprintln":
		m.Stats.Intrinsics[name] = true
		return m.sprint(args[0].([]Value), true), true
	case "fmt.Fprintf":
		m.Stats.Intrinsics[name] = true
		return m.writeTo(args[0], m.sprintf(args[1], args[2].([]Value))), true
	case "fmt.Fprint":
		m.Stats.Intrinsics[name] = true
		return m.writeTo(args[0], m.sprint(args[1].([]Value), false)), true
	case "fmt.Fprintln":
		m.Stats.Intrinsics[name] = true
		return m.writeTo(args[0], m.sprint(args[1].([]Value), true)), true
	case "fmt.Printf", "fmt.Println", "fmt.Print":
		return Tuple{int64(0), Iface{}}, true

	case "errors.Is":
		m.Stats.Intrinsics[name] = true
		return m.errorsIs(args[0].(Iface), args[1].(Iface), 0), true
	case "errors.Unwrap":
		m.Stats.Intrinsics[name] = true
		e := args[0].(Iface)
		if e.T != nil && m.hasMethod(e.T, "Unwrap") {
			if r, ok := m.invoke(e, "Unwrap").(Iface); ok {
				return r, true
			}
		}
		return Iface{}, true
	case "(*strconv.NumError).Unwrap":
		return (*args[0].(*Value)).(Struct)[2], true
	case "(*strconv.NumError).Error":
		st := (*args[0].(*Value)).(Struct)
		inner := m.invoke(st[2].(Iface), "Error")
		out := append([]Value{}, strPieces("strconv.")...)
		out = append(out, strPieces(st[0])...)
		out = append(out, strPieces(": parsing ")...)
		out = append(out, m.newOpaque("quoted input", true))
		out = append(out, strPieces(": ")...)
		out = append(out, strPieces(inner)...)
		return mkStr(out), true
	case "os.Getenv":
		m.Stats.Intrinsics[name] = true
		k, ok := args[0].(string)
		if !ok {
			// symbolic variable name: compare with the table
			for _, n := range m.envOrder {
				if m.condBool(m.strEq(args[0], n)) {
					return m.env[n], true
				}
			}
			return "", true
		}
		if v, ok := m.env[k]; ok {
			return v, true
		}
		return "", true
	case "os.Exit":
		m.end("osexit", "os.Exit called")

	case "text/tabwriter.NewWriter":
		m.Stats.Intrinsics[name] = true
		p := new(Value)
		*p = &Native{Kind: "tabwriter", X: &twState{out: args[0].(Iface)}}
		return p, true
	case "(*text/tabwriter.Writer).Init":
		p := args[0].(*Value)
		*p = &Native{Kind: "tabwriter", X: &twState{out: args[1].(Iface)}}
		return p, true
	case "(*text/tabwriter.Writer).Write":
		st := (*args[0].(*Value)).(*Native).X.(*twState)
		bs := args[1].([]Value)
		st.buf = append(st.buf, bs...)
		return Tuple{int64(len(bs)), Iface{}}, true
	case "(*text/tabwriter.Writer).Flush":
		m.Stats.Intrinsics[name] = true
		st := (*args[0].(*Value)).(*Native).X.(*twState)
		buf := st.buf
		st.buf = nil
		if len(buf) > 0 {
			m.writeTo(st.out, mkStr(buf))
		}
		return Iface{}, true

	case "math.Float64bits":
		if f, ok := args[0].(float64); ok {
			return int64(math.Float64bits(f)), true
		}
		return args[0], true
	case "math.Float64frombits":
		if x, ok := args[0].(int64); ok {
			return math.Float64frombits(uint64(x)), true
		}
		return args[0], true
	case "math.IsNaN":
		if f, ok := args[0].(float64); ok {
			return math.IsNaN(f), true
		}
		m.unsupported("math.IsNaN of symbolic float")
	}
	return nil, false
}

// harnessIntrinsic implements the body-less v* functions of the harness runtime.
func (m *Machine) harnessIntrinsic(name string, args []Value) (Value, bool) {
	tag := func() string {
		if s, ok := args[0].(string); ok {
			return s
		}
		return "?"
	}
	if m.Forced != nil {
		switch name {
		case "vNondetInt", "vNondetBool", "vNondetByte", "vNondetString", "vNondetStringN", "vNondetValue", "vChoice":
			if m.forcedPos >= len(m.Forced) {
				m.end("unsupported", "engine replay: more nondet calls than recorded")
			}
			r := m.Forced[m.forcedPos]
			m.forcedPos++
			var v Value
			switch name {
			case "vNondetBool":
				v = r.Bool
			case "vNondetString", "vNondetStringN":
				v = string(r.Str)
			case "vNondetValue":
				m.nondets = append(m.nondets, NondetRec{r.Tag, r.Kind, r.Int})
				return Iface{T: types.Typ[types.Int], V: r.Int}, true
			default:
				v = r.Int
			}
			m.nondets = append(m.nondets, NondetRec{r.Tag, r.Kind, v})
			return v, true
		}
	}
	switch name {
	case "vNondetInt":
		lo, hi := m.asInt(args[1]), m.asInt(args[2])
		if lo == hi {
			m.nondets = append(m.nondets, NondetRec{tag(), "int", lo})
			return lo, true
		}
		v := m.freshVar("i", 64)
		m.nondets = append(m.nondets, NondetRec{tag(), "int", v})
		c := m.Ctx
		m.Assume(c.And(c.Bin(sym.OpSle, c.BV(64, uint64(lo)), v), c.Bin(sym.OpSle, v, c.BV(64, uint64(hi)))))
		return v, true
	case "vChoice":
		// structural case split enumerated by the engine (no constraint can make a case
		// infeasible at this point, so no solver call is needed)
		n := int(m.asInt(args[1]))
		v := int64(m.Choose(n))
		m.nondets = append(m.nondets, NondetRec{tag(), "int", v})
		return v, true
	case "vNondetBool":
		v := m.freshVar("p", 0)
		m.nondets = append(m.nondets, NondetRec{tag(), "bool", v})
		return v, true
	case "vNondetByte":
		v := m.freshVar("b", 8)
		m.nondets = append(m.nondets, NondetRec{tag(), "byte", v})
		return v, true
	case "vNondetString", "vNondetStringN":
		maxLen := m.asInt(args[1])
		n := maxLen
		if name == "vNondetString" && maxLen > 0 {
			lv := m.freshVar("n", 64)
			c := m.Ctx
			m.Assume(c.And(c.Bin(sym.OpSle, c.BV(64, 0), lv), c.Bin(sym.OpSle, lv, c.BV(64, uint64(maxLen)))))
			n = m.Concretise(lv)
		}
		p := make([]Value, n)
		for i := range p {
			p[i] = m.freshVar("b", 8)
		}
		s := mkStr(p)
		m.nondets = append(m.nondets, NondetRec{tag(), "string", s})
		return s, true
	case "vNondetValue":
		v := m.freshVar("i", 64)
		m.nondets = append(m.nondets, NondetRec{tag(), "value", v})
		return Iface{T: types.Typ[types.Int], V: v}, true
	case "vParamInt":
		k := args[0].(string)
		v, ok := m.Params[k]
		if !ok {
			panic("harness asks for undefined parameter " + k)
		}
		switch v := v.(type) {
		case int:
			return int64(v), true
		case int64:
			return v, true
		case float64:
			return int64(v), true
		}
		panic("parameter " + k + " is not an int")
	case "vParamString":
		k := args[0].(string)
		v, ok := m.Params[k]
		if !ok {
			panic("harness asks for undefined parameter " + k)
		}
		return v.(string), true
	case "vAssume":
		m.Assume(args[0])
		return nil, true
	case "vAssert":
		msg, _ := args[1].(string)
		m.Assert(args[0], msg)
		return nil, true
	case "vCover":
		m.covers = append(m.covers, tag())
		return nil, true
	case "vObserve":
		v := args[1]
		if i, ok := v.(Iface); ok {
			v = i.V
		}
		m.obs = append(m.obs, Obs{tag(), v})
		return nil, true
	case "vSetenv":
		k, ok := args[0].(string)
		if !ok {
			m.unsupported("vSetenv with symbolic name")
		}
		if _, have := m.env[k]; !have {
			m.envOrder = append(m.envOrder, k)
		}
		m.env[k] = args[1]
		return nil, true
	case "vKnownFinding":
		return m.P.Known[tag()], true
	case "vLimitDepth":
		m.limDepth[tag()] = int(m.asInt(args[1]))
		return nil, true
	case "vLimitCalls":
		m.limCalls[tag()] = int(m.asInt(args[1]))
		m.curCalls[tag()] = 0
		return nil, true
	case "vMapOrder":
		m.MapOrder = int(m.asInt(args[0]))
		return nil, true
	case "vIsRuntimeError":
		return m.IsRuntimeError(args[0]), true
	case "vFootprintReset":
		m.trackGlobals = true
		m.gStores, m.gLoads = nil, nil
		m.markOwned()
		return nil, true
	case "vGlobalStores":
		out := []Value{}
		for _, g := range m.gStores {
			out = append(out, g)
		}
		return out, true
	case "vGlobalLoads":
		out := []Value{}
		for _, g := range m.gLoads {
			out = append(out, g)
		}
		return out, true
	case "vNFAEquiv":
		ints := func(v Value) []int {
			var out []int
			for _, x := range v.([]Value) {
				out = append(out, int(x.(int64)))
			}
			return out
		}
		eq, k, decided := m.nfaEquiv(int(m.asInt(args[0])), ints(args[1]), ints(args[2]), int(m.asInt(args[3])), ints(args[4]), ints(args[5]), int(m.asInt(args[6])))
		if !decided {
			m.unsupported("k-induction for automaton equivalence did not close (k=24) or solver unknown")
		}
		if k > m.Stats.MaxInductionK {
			m.Stats.MaxInductionK = k
		}
		m.Stats.InductionProofs++
		return eq, true
	case "vSymbolic":
		return true, true
	case "vConcretize":
		return m.asInt(args[0]), true
	}
	return nil, false
}

// errorsIs follows the documented algorithm of errors.Is (identity, Is method, Unwrap
// chain) on interpreter values.
func (m *Machine) errorsIs(err, target Iface, depth int) Value {
	if err.T == nil || target.T == nil {
		return err.T == nil && target.T == nil
	}
	if depth > 16 {
		m.unsupported("errors.Is: unwrap chain too deep")
	}
	for {
		if m.identical(err.T, target.T) {
			if eq, ok := m.equals(err.T, err.V, target.V).(bool); ok && eq {
				return true
			}
		}
		if m.hasMethod(err.T, "Is") {
			if r, ok := m.invoke(err, "Is", target).(bool); ok && r {
				return true
			}
		}
		if !m.hasMethod(err.T, "Unwrap") {
			return false
		}
		next, ok := m.invoke(err, "Unwrap").(Iface)
		if !ok {
			m.unsupported("errors.Is: Unwrap returning a list")
		}
		if next.T == nil {
			return false
		}
		err = next
		depth++
		if depth > 16 {
			m.unsupported("errors.Is: unwrap chain too deep")
		}
	}
}

// asciiCase maps an ASCII byte to upper or lower case; non-ASCII bytes end the path
// (outside the modelled domain of the intrinsic).
func (m *Machine) asciiCase(b Value, upper bool, where string) Value {
	switch b := b.(type) {
	case int64:
		if b >= 0x80 {
			m.unsupported(where + " on non-ASCII byte")
		}
		if upper && b >= 'a' && b <= 'z' {
			return b - 32
		}
		if !upper && b >= 'A' && b <= 'Z' {
			return b + 32
		}
		return b
	case *sym.Term:
		c := m.Ctx
		if !m.Branch(c.Bin(sym.OpUlt, b, c.BV(8, 0x80))) {
			m.unsupported(where + " on non-ASCII byte")
		}
		lo, hi, d := byte('A'), byte('Z'), uint64(32)
		if upper {
			lo, hi, d = 'a', 'z', 0xe0 // -32 mod 256
		}
		in := c.And(c.Bin(sym.OpUle, c.BV(8, uint64(lo)), b), c.Bin(sym.OpUle, b, c.BV(8, uint64(hi))))
		return c.Ite(in, c.Bin(sym.OpAdd, b, c.BV(8, d)), b)
	}
	m.unsupported(where + " on opaque string")
	return nil
}
