package interp

import (
	"fmt"
	"go/types"
	"runtime"
	"sync"
	"sync/atomic"
	"time"

	"golang.org/x/tools/go/ssa"
)

// Unit is one harness instance: an entry function plus concrete parameters.
type Unit struct {
	Name       string
	Harness    string // harness group (for native replay: package dir + files)
	PkgPath    string
	Entry      string
	Params     map[string]interface{}
	StepBudget int64
	DepthMax   int
	MapOrder   int
	MaxPaths   int64
	Samples    int // number of completed paths to sample for trace validation
	Expect     string
}

type Sample struct {
	Unit    string                 `json:"unit"`
	Entry   string                 `json:"entry"`
	Params  map[string]interface{} `json:"params"`
	Nondets []ReplayVal            `json:"nondets"`
	Obs     []string               `json:"obs"`
	End     string                 `json:"end"`
}

type UnitResult struct {
	Unit      *Unit
	Stats     *Stats
	Failures  []*Failure
	Samples   []Sample
	Truncated bool
	Wall      time.Duration

	mu       sync.Mutex
	stop     int32
	pending  int32
	nsamples int32
	paths    int64
}

type Options struct {
	Workers   int
	Solver    string
	TimeoutMs int
	MaxFail   int
	Deadline  time.Time
	Progress  func(done, total int)
}

type task struct {
	ur     *UnitResult
	prefix []entryLite
}

type scheduler struct {
	mu      sync.Mutex
	cond    *sync.Cond
	queue   []*task
	idle    int
	nwork   int
	done    bool
	hungry  int32
	p       *Program
	opts    Options
	solverT time.Duration
	solverQ [4]int64
	errs    []string
}

// SolverTotals are filled by RunUnits.
type SolverTotals struct {
	Time    time.Duration
	Queries int64
	Sat     int64
	Unsat   int64
	Unknown int64
	Errors  []string
}

func (s *scheduler) get() *task {
	s.mu.Lock()
	defer s.mu.Unlock()
	for {
		if len(s.queue) > 0 {
			t := s.queue[len(s.queue)-1]
			s.queue = s.queue[:len(s.queue)-1]
			return t
		}
		s.idle++
		atomic.StoreInt32(&s.hungry, int32(s.idle))
		if s.idle == s.nwork {
			s.done = true
			s.cond.Broadcast()
			return nil
		}
		s.cond.Wait()
		s.idle--
		atomic.StoreInt32(&s.hungry, int32(s.idle))
		if s.done {
			s.idle++
			return nil
		}
	}
}

func (s *scheduler) put(t *task) {
	s.mu.Lock()
	s.queue = append(s.queue, t)
	s.mu.Unlock()
	s.cond.Signal()
}

// RunUnits explores all units on a pool of workers and returns their results in order.
func RunUnits(p *Program, units []*Unit, opts Options) ([]*UnitResult, SolverTotals) {
	if opts.Workers <= 0 {
		opts.Workers = 1
	}
	if opts.MaxFail <= 0 {
		opts.MaxFail = 1
	}
	s := &scheduler{p: p, opts: opts, nwork: opts.Workers}
	s.cond = sync.NewCond(&s.mu)
	results := make([]*UnitResult, len(units))
	// queue in reverse so that units start in order
	for i := len(units) - 1; i >= 0; i-- {
		results[i] = &UnitResult{Unit: units[i], Stats: NewStats(), pending: 1}
		s.queue = append(s.queue, &task{ur: results[i]})
	}
	var wg sync.WaitGroup
	var finished int32
	for w := 0; w < opts.Workers; w++ {
		wg.Add(1)
		go func() {
			defer wg.Done()
			runtime.LockOSThread()
			m, err := NewMachine(p, opts.Solver, opts.TimeoutMs)
			if err != nil {
				s.mu.Lock()
				s.errs = append(s.errs, err.Error())
				s.nwork--
				s.mu.Unlock()
				return
			}
			defer func() {
				s.mu.Lock()
				s.solverT += m.Solver.Time
				s.solverQ[0] += int64(m.Solver.Queries)
				s.solverQ[1] += int64(m.Solver.NSat)
				s.solverQ[2] += int64(m.Solver.NUnsat)
				s.solverQ[3] += int64(m.Solver.NUnknown)
				if len(s.errs) < 20 {
					s.errs = append(s.errs, m.Solver.Errors...)
				}
				s.mu.Unlock()
				m.Close()
			}()
			for {
				t := s.get()
				if t == nil {
					return
				}
				s.runTask(m, t)
				if atomic.AddInt32(&t.ur.pending, -1) == 0 {
					n := atomic.AddInt32(&finished, 1)
					if opts.Progress != nil {
						opts.Progress(int(n), len(units))
					}
				}
			}
		}()
	}
	wg.Wait()
	st := SolverTotals{Time: s.solverT, Queries: s.solverQ[0], Sat: s.solverQ[1], Unsat: s.solverQ[2], Unknown: s.solverQ[3], Errors: s.errs}
	return results, st
}

func (s *scheduler) runTask(m *Machine, t *task) {
	ur := t.ur
	u := ur.Unit
	start := time.Now()
	pkg := s.p.MainPkg[u.PkgPath]
	if pkg == nil {
		panic("unit " + u.Name + ": package " + u.PkgPath + " not loaded")
	}
	entry := pkg.Func(u.Entry)
	if entry == nil {
		panic("unit " + u.Name + ": no function " + u.Entry + " in " + u.PkgPath)
	}
	m.Params = u.Params
	m.StepBudget = u.StepBudget
	if m.StepBudget == 0 {
		m.StepBudget = 20_000_000
	}
	m.DepthMax = u.DepthMax
	if m.DepthMax == 0 {
		m.DepthMax = 3000
	}
	m.MapOrderDefault = u.MapOrder
	m.Stats = NewStats()
	floor := m.SetPrefix(t.prefix)
	local := int64(0)
	var fails []*Failure
	var samples []Sample
	truncated := false
	sampleEvery := int64(1)
	for {
		if atomic.LoadInt32(&ur.stop) != 0 {
			break
		}
		n := atomic.AddInt64(&ur.paths, 1)
		if u.MaxPaths > 0 && n > u.MaxPaths {
			truncated = true
			break
		}
		if !s.opts.Deadline.IsZero() && local%64 == 0 && time.Now().After(s.opts.Deadline) {
			truncated = true
			break
		}
		wantSample := u.Samples > 0 && len(samples) < u.Samples && local%sampleEvery == 0 && atomic.LoadInt32(&ur.nsamples) < int32(u.Samples)
		res := m.RunPath(entry, wantSample)
		local++
		if res.Failure != nil {
			res.Failure.Trail = m.TrailVals()
			fails = append(fails, res.Failure)
			ur.mu.Lock()
			nf := len(ur.Failures) + len(fails)
			ur.mu.Unlock()
			if nf >= s.opts.MaxFail {
				atomic.StoreInt32(&ur.stop, 1)
			}
		}
		if res.Nondets != nil {
			atomic.AddInt32(&ur.nsamples, 1)
			samples = append(samples, Sample{Unit: u.Name, Entry: u.Entry, Params: u.Params, Nondets: res.Nondets, Obs: res.Obs, End: res.End})
			if len(samples)%4 == 0 {
				sampleEvery *= 2 // spread samples over the exploration
			}
		}
		// share work when others are idle
		if atomic.LoadInt32(&s.hungry) > 0 {
			if p := m.Donate(floor); p != nil {
				atomic.AddInt32(&ur.pending, 1)
				s.put(&task{ur: ur, prefix: p})
			}
		}
		if !m.Backtrack(floor) {
			break
		}
	}
	ur.mu.Lock()
	ur.Stats.Merge(m.Stats)
	ur.Failures = append(ur.Failures, fails...)
	if len(ur.Samples) < 4*u.Samples+4 {
		ur.Samples = append(ur.Samples, samples...)
	}
	if truncated {
		ur.Truncated = true
	}
	ur.Wall += time.Since(start)
	ur.mu.Unlock()
}

// FindEntry is a helper for tools.
func FindEntry(p *Program, pkgPath, name string) (*ssa.Function, error) {
	pkg := p.MainPkg[pkgPath]
	if pkg == nil {
		return nil, fmt.Errorf("package %s not loaded", pkgPath)
	}
	f := pkg.Func(name)
	if f == nil {
		return nil, fmt.Errorf("no function %s in %s", name, pkgPath)
	}
	return f, nil
}

// EvalStrings runs a concrete function of the harness returning []string.
func EvalStrings(p *Program, pkgPath, name string) ([]string, error) {
	fn, err := FindEntry(p, pkgPath, name)
	if err != nil {
		return nil, err
	}
	m := &Machine{P: p, Stats: NewStats(), StepBudget: 200_000_000, DepthMax: 3000,
		constC: map[*ssa.Const]Value{}, identC: map[[2]types.Type]bool{}}
	m.resetPath()
	var out []string
	var rerr error
	func() {
		defer func() {
			if r := recover(); r != nil {
				rerr = fmt.Errorf("EvalStrings %s: %v", name, r)
			}
		}()
		m.initGlobals()
		v := m.call(fn, nil)
		for _, x := range v.([]Value) {
			out = append(out, x.(string))
		}
	}()
	return out, rerr
}

// ReplayInEngine runs one unit on recorded nondet values (a single concrete path
// through the engine) and reports the failure it ends in, if any.
func ReplayInEngine(p *Program, u *Unit, vals []ReplayVal) (*Failure, string, error) {
	fn, err := FindEntry(p, u.PkgPath, u.Entry)
	if err != nil {
		return nil, "", err
	}
	m, err := NewMachine(p, "z3", 20000)
	if err != nil {
		return nil, "", err
	}
	defer m.Close()
	m.Params = u.Params
	m.MapOrderDefault = u.MapOrder
	m.Forced = vals
	if m.Forced == nil {
		m.Forced = []ReplayVal{}
	}
	m.SetPrefix(nil)
	res := m.RunPath(fn, false)
	return res.Failure, res.End + " " + res.Detail, nil
}
