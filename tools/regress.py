#!/usr/bin/env python3
"""Mutation regression: apply every kept seeded change to /repo, run the property's own quick check,
expect exit 1 with a VIOLATION line, revert. usage: regress.py [name-substring ...]"""
import json, os, subprocess, sys, glob, time

ENV = dict(os.environ, GOFLAGS="-mod=mod", GOPROXY="off", GOSUMDB="off", GOTOOLCHAIN="local")

def sh(cmd, cwd=None, timeout=7200):
    p = subprocess.run(cmd, shell=True, cwd=cwd, env=ENV, capture_output=True, text=True, timeout=timeout)
    return p.returncode, p.stdout + p.stderr

def main():
    filt = sys.argv[1:]
    REPO = os.environ.get("VERIF_REPO", "/repo")
    rc, o = sh("git status --porcelain", REPO)
    if o.strip():
        print("/repo is not clean"); return 2
    rows = []
    for d in sorted(glob.glob("/verif/seeded/*/")):
        name = os.path.basename(d.rstrip("/"))
        if filt and not any(f in name for f in filt):
            continue
        prop = name.split("-")[0]
        rc, o = sh(f"git apply {d}patch.diff", REPO)
        if rc != 0:
            rows.append((name, "patch does not apply", 0)); continue
        t0 = time.time()
        try:
            rc, o = sh(f"./bin/mowcheck check --property {prop} --tier quick --no-evidence", "/verif")
        finally:
            sh("git checkout -- .", REPO)
        viol = [l for l in o.splitlines() if l.startswith("VIOLATION")]
        ok = rc == 1 and len(viol) > 0
        rows.append((name, "caught" if ok else f"MISSED (exit {rc})", time.time() - t0))
        print(f"{name}: {rows[-1][1]} ({rows[-1][2]:.0f}s)", flush=True)
        m = json.load(open(d + "meta.json"))
        m.setdefault("regression", {})["last"] = {"caught": ok, "exit": rc, "wall_s": round(time.time() - t0, 1)}
        json.dump(m, open(d + "meta.json", "w"), indent=1)
    missed = [r for r in rows if not r[1].startswith("caught")]
    print(f"regression: {len(rows) - len(missed)}/{len(rows)} seeded changes caught by their property's quick check")
    return 1 if missed else 0

if __name__ == "__main__":
    sys.exit(main())
