#!/usr/bin/env python3
"""Regenerate the table of DESIGN.md 10.2 (between the bounds markers) from
`mowcheck describe`, the quick evidence files and the logs of a thorough sweep.

usage: bounds_table.py [thorough-log-dir]   (prints markdown; --write patches DESIGN.md)
"""
import json, os, re, subprocess, sys, glob

V = os.environ.get("VERIF_DIR", "/verif")
ENV = dict(os.environ, GOFLAGS="-mod=mod", GOPROXY="off", GOSUMDB="off", GOTOOLCHAIN="local")

def main():
    logdir = next((a for a in sys.argv[1:] if not a.startswith("--")), None)
    out = subprocess.run([f"{V}/bin/mowcheck", "describe"], capture_output=True, text=True, env=ENV, cwd=V).stdout
    desc = {}
    for l in out.splitlines():
        if l.startswith("{"):
            d = json.loads(l)
            desc[(d["id"], d["tier"])] = d
    rows = ["| id | harness entries (units quick / thorough) | quick: bounds | quick: explored | thorough: bounds | thorough: explored |", "|---|---|---|---|---|---|"]
    for pid in sorted({k[0] for k in desc}):
        q, t = desc[(pid, "quick")], desc[(pid, "thorough")]
        ents = sorted(set(q["entries"]) | set(t["entries"]))
        ecol = ", ".join(f"`{e}` ({q['entries'].get(e,0)}/{t['entries'].get(e,0)})" for e in ents)
        def b(d):
            return "; ".join(f"{k}: {v}" for k, v in sorted(d["bounds"].items())).replace("|", "\\|")
        qe = ""
        ef = f"{V}/evidence/{pid}.json"
        if os.path.exists(ef):
            e = json.load(open(ef))
            c = e["coverage"]
            qe = f"{c.get('states','?')} paths, {c.get('queries','?')} queries, {e.get('wall_s','?')} s"
        te = "not measured"
        if logdir and os.path.exists(f"{logdir}/{pid}.log"):
            txt = open(f"{logdir}/{pid}.log").read()
            m = re.search(r"thorough: units=(\d+) paths=(\d+) .*? queries=(\d+) .*?wall ([\d.]+)s", txt)
            if m:
                te = f"{m.group(2)} paths, {m.group(3)} queries, {float(m.group(4)):.0f} s"
                inc = len(re.findall(r"^INCONCLUSIVE", txt, re.M))
                if inc:
                    te += f", {inc} units inconclusive (budget)"
            else:
                te = "did not finish within the sweep's per-property limit"
        rows.append(f"| {pid} | {ecol} | {b(q)} | {qe} | {b(t)} | {te} |")
    md = "\n".join(rows)
    if "--write" in sys.argv:
        p = f"{V}/DESIGN.md"
        s = open(p).read()
        a, z = "<!-- bounds:begin -->", "<!-- bounds:end -->"
        i, j = s.index(a) + len(a), s.index(z)
        open(p, "w").write(s[:i] + "\n" + md + "\n" + s[j:])
    else:
        print(md)

if __name__ == "__main__":
    main()
