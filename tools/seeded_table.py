#!/usr/bin/env python3
"""Print the markdown table of seeded changes (DESIGN.md 10.6) from /verif/seeded/*/meta.json."""
import json, glob, os, re
rows = []
for f in sorted(glob.glob('/verif/seeded/*/meta.json')):
    m = json.load(open(f))
    name = os.path.basename(os.path.dirname(f))
    what = m.get('what', '').strip().split('\n')
    first = ''
    for l in what:
        l = l.strip().lstrip('#').strip()
        if l:
            first = l
            break
    first = re.sub(r'\s+', ' ', first)[:150]
    det = m.get('detected_by', [])
    runs = []
    for c, r in m.get('checks_run', {}).items():
        runs.append(f"{c} {r.get('tier','quick')}: " + ("VIOLATION" if r['exit'] == 1 and r['violations'] > 0 else ("clean" if r['exit'] == 0 else f"exit {r['exit']}")) + f" ({r['wall_s']:.0f}s)")
    rows.append(f"| {name} | {first} | {'; '.join(runs)} | {', '.join(det) if det else '**missed**'} |")
print("| seeded change | what (from the author's note) | checks run | caught by |")
print("|---|---|---|---|")
print("\n".join(rows))
