#!/usr/bin/env python3
"""Confirm a seeded change produced by a sub-agent and run our checks against it.

usage: trial.py <prop> <n> [--checks C01,C02] [--tier quick]
  1. in the agent's scratch worktree /tmp/mut/<prop>: apply mN.diff, run the existing suite (must pass),
     run the demo (must fail), revert, run the demo (must pass)
  2. apply the diff to /repo, run the given checks (default: the property's own), revert /repo
  3. store patch, demo and meta.json under /verif/seeded/<prop>-mN/
"""
import json, os, re, subprocess, sys, shutil, time

ENV = dict(os.environ, GOFLAGS="-mod=mod", GOPROXY="off", GOSUMDB="off", GOTOOLCHAIN="local")

def sh(cmd, cwd=None, timeout=3600):
    p = subprocess.run(cmd, shell=True, cwd=cwd, env=ENV, capture_output=True, text=True, timeout=timeout)
    return p.returncode, p.stdout + p.stderr

def main():
    prop, n = sys.argv[1], sys.argv[2]
    checks = [prop]
    tier = "quick"
    for i, a in enumerate(sys.argv):
        if a == "--checks":
            checks = sys.argv[i + 1].split(",")
        if a == "--tier":
            tier = sys.argv[i + 1]
    root = os.environ.get("MUTDIR", "/tmp/mut")
    tag = os.environ.get("MUTTAG", "")
    wt = f"{root}/{prop}"
    out = f"{wt}/_out"
    diff = f"{out}/m{n}.diff"
    demo = f"{out}/m{n}_demo_test.go"
    meta = {"property": prop, "mutant": f"m{n}", "checks_run": {}, "confirmed": {}}
    if not os.path.exists(diff):
        print("no diff", diff); return 2
    first = open(demo).readline()
    m = re.match(r"//\s*dir:\s*(\S+)", first)
    d = m.group(1) if m else "."
    tname = re.search(r"func (Test\w+)\(", open(demo).read()).group(1)
    dst = os.path.join(wt, d, "zz_seeded_demo_test.go")
    # --- confirmation in the scratch worktree
    sh("git checkout -- .", wt)
    rc, o = sh(f"git apply {diff}", wt)
    if rc != 0:
        print("patch does not apply:", o); return 2
    rc, o = sh("go build ./... && go test -vet=off -count=1 ./...", wt)
    meta["confirmed"]["suite_passes_with_change"] = (rc == 0)
    shutil.copy(demo, dst)
    rc, o = sh(f"go test -vet=off -count=1 -run '^{tname}$' ./{d}", wt, timeout=300)
    meta["confirmed"]["demo_fails_with_change"] = (rc != 0)
    os.remove(dst)
    sh("git checkout -- .", wt)
    shutil.copy(demo, dst)
    rc, o = sh(f"go test -vet=off -count=1 -run '^{tname}$' ./{d}", wt, timeout=300)
    meta["confirmed"]["demo_passes_without_change"] = (rc == 0)
    os.remove(dst)
    ok = all(meta["confirmed"].values())
    print(f"{prop} {tag}m{n}: confirmation {meta['confirmed']}")
    # --- our checks against /repo with the change
    REPO = os.environ.get("VERIF_REPO", "/repo")
    rc, o = sh("git status --porcelain", REPO)
    if o.strip():
        print(REPO, "is not clean:", o); return 2
    rc, o = sh(f"git apply {diff}", REPO)
    if rc != 0:
        print("patch does not apply to /repo:", o); return 2
    try:
        for c in checks:
            t0 = time.time()
            rc, o = sh(f"./bin/mowcheck check --property {c} --tier {tier} --no-evidence", "/verif", timeout=7200)
            viol = [l for l in o.splitlines() if l.startswith("VIOLATION")]
            cex = [l.strip() for l in o.splitlines() if "counterexample in" in l][:3]
            inc = [l for l in o.splitlines() if l.startswith("INCONCLUSIVE") or l.startswith("UNCONFIRMED") or l.startswith("TRACE-MISMATCH")][:3]
            meta["checks_run"][c] = {"exit": rc, "violations": len(viol), "first_counterexamples": cex, "notes": inc, "wall_s": round(time.time() - t0, 1), "tier": tier}
            print(f"  check {c} ({tier}): exit={rc} violations={len(viol)} {cex[:1]} {inc[:1]} {time.time()-t0:.0f}s")
    finally:
        sh("git checkout -- .", REPO)
    sd = f"/verif/seeded/{prop}-{tag}m{n}"
    os.makedirs(sd, exist_ok=True)
    shutil.copy(diff, f"{sd}/patch.diff")
    shutil.copy(demo, f"{sd}/demo_test.go")
    md = f"{out}/m{n}.md"
    meta["what"] = open(md).read() if os.path.exists(md) else ""
    meta["ran"] = ["scratch worktree: git apply; go build ./... && go test -vet=off -count=1 ./... ; demo with and without the change",
                   "/repo: git apply; mowcheck check --property <id>; git checkout -- ."]
    meta["detected_by"] = [c for c, r in meta["checks_run"].items() if r["exit"] == 1 and r["violations"] > 0]
    meta["kept"] = ok
    json.dump(meta, open(f"{sd}/meta.json", "w"), indent=1)
    return 0

if __name__ == "__main__":
    sys.exit(main())
