package parser

// C01-S: the state graph built by the real parser (Parse + Prepare) denotes, over
// matcher labels, the same language as the Glushkov automaton of the reference
// regular expression read off the same tokens. Language equivalence of the two
// finite automata is decided by the solver (k-induction over the product of the two
// subset constructions, engine intrinsic vNFAEquiv; the native twin decides it by
// explicit subset construction) - i.e. for label sequences of ANY length.

import (
	"fmt"

	"github.com/jawher/mow.cli/internal/fsm"
	"github.com/jawher/mow.cli/internal/lexer"
	"github.com/jawher/mow.cli/internal/matcher"
)

func init() {
	vRegister("H_struct", H_struct)
}

// ---- reference AST from token kinds (grammar of DESIGN.md 4.1)

const (
	raLeaf = iota
	raSeq
	raChoice
	raOpt
	raRep
)

type rast struct {
	kind  int
	label string
	kids  []*rast
}

type rastParser struct {
	ts  []vKind
	pos int
	bad bool
}

func (p *rastParser) cls() byte {
	if p.pos >= len(p.ts) {
		return 0
	}
	return p.ts[p.pos].cls
}

func (p *rastParser) startsItem() bool {
	switch p.cls() {
	case 'A', 'O', '(', '[', 'E':
		return true
	}
	return false
}

func (p *rastParser) seq(atLeastOne bool) *rast {
	n := &rast{kind: raSeq}
	for p.startsItem() && !p.bad {
		n.kids = append(n.kids, p.item())
	}
	if atLeastOne && len(n.kids) == 0 {
		p.bad = true
	}
	return n
}

func (p *rastParser) item() *rast {
	first := p.unit()
	if p.cls() != '|' {
		return first
	}
	n := &rast{kind: raChoice, kids: []*rast{first}}
	for p.cls() == '|' && !p.bad {
		p.pos++
		n.kids = append(n.kids, p.unit())
	}
	return n
}

// vLabelOf: the label the implementation's matcher for this token prints.
func vLabelOf(k vKind) string {
	switch k.typ {
	case lexer.TTArg:
		return k.val
	case lexer.TTOptions:
		return "-ao" // all declared options, first names without dashes
	case lexer.TTShortOpt:
		return k.val
	case lexer.TTLongOpt:
		return "-o" // --oo is option o, printed by its first name
	case lexer.TTOptSeq:
		return "-" + k.val
	case lexer.TTDoubleDash:
		return "--"
	}
	return "?"
}

func (p *rastParser) unit() *rast {
	if p.bad || p.pos >= len(p.ts) {
		p.bad = true
		return &rast{kind: raSeq}
	}
	t := p.ts[p.pos]
	var core *rast
	switch t.cls {
	case 'E':
		p.pos++
		return &rast{kind: raLeaf, label: "--"}
	case 'A':
		p.pos++
		core = &rast{kind: raLeaf, label: vLabelOf(t)}
	case 'O':
		p.pos++
		core = &rast{kind: raLeaf, label: vLabelOf(t)}
		if t.takesVal && p.cls() == 'V' {
			p.pos++
		}
	case '(':
		p.pos++
		core = p.seq(true)
		if p.cls() != ')' {
			p.bad = true
			return core
		}
		p.pos++
	case '[':
		p.pos++
		body := p.seq(true)
		if p.cls() != ']' {
			p.bad = true
			return body
		}
		p.pos++
		core = &rast{kind: raOpt, kids: []*rast{body}}
	default:
		p.bad = true
		return &rast{kind: raSeq}
	}
	if p.cls() == 'R' {
		p.pos++
		core = &rast{kind: raRep, kids: []*rast{core}}
	}
	return core
}

// ---- Glushkov automaton

type glu struct {
	labels   []string // per position (1-based: position i has labels[i-1])
	follow   [][]int
	nullable bool
	first    []int
	last     []int
}

func vUnion(a, b []int) []int {
	out := append([]int(nil), a...)
	for _, x := range b {
		found := false
		for _, y := range out {
			if x == y {
				found = true
			}
		}
		if !found {
			out = append(out, x)
		}
	}
	return out
}

// build returns nullable, first, last of n and fills follow.
func (g *glu) build(n *rast) (bool, []int, []int) {
	switch n.kind {
	case raLeaf:
		g.labels = append(g.labels, n.label)
		g.follow = append(g.follow, nil)
		p := len(g.labels)
		return false, []int{p}, []int{p}
	case raSeq:
		nullable := true
		var first, last []int
		for _, k := range n.kids {
			kn, kf, kl := g.build(k)
			for _, l := range last {
				g.follow[l-1] = vUnion(g.follow[l-1], kf)
			}
			if nullable {
				first = vUnion(first, kf)
			}
			if kn {
				last = vUnion(last, kl)
			} else {
				last = kl
			}
			nullable = nullable && kn
		}
		return nullable, first, last
	case raChoice:
		nullable := false
		var first, last []int
		for _, k := range n.kids {
			kn, kf, kl := g.build(k)
			nullable = nullable || kn
			first = vUnion(first, kf)
			last = vUnion(last, kl)
		}
		return nullable, first, last
	case raOpt:
		_, kf, kl := g.build(n.kids[0])
		return true, kf, kl
	case raRep:
		kn, kf, kl := g.build(n.kids[0])
		for _, l := range kl {
			g.follow[l-1] = vUnion(g.follow[l-1], kf)
		}
		return kn, kf, kl
	}
	return true, nil, nil
}

// ---- flat NFA representation handed to the equivalence decision

type vNFA struct {
	n     int
	trans []int // triples (from, label, to)
	acc   []int
}

func vLabelID(table *[]string, l string) int {
	for i, x := range *table {
		if x == l {
			return i
		}
	}
	*table = append(*table, l)
	return len(*table) - 1
}

func H_struct() {
	k := vParamInt("k")
	n := vChoice("ntok", k+1)
	var ks []vKind
	var toks []*lexer.Token
	spec := ""
	// "mini": the 9 kinds that make structure (X, -a, OPTIONS, ( ) [ ] | ... --), to reach longer specs
	mini := []int{0, 3, 2, 9, 10, 11, 12, 13, 14, 15}
	useMini := vParamInt("mini") == 1
	for i := 0; i < n; i++ {
		var kd vKind
		if useMini {
			kd = vKinds[mini[vChoice("kind", len(mini))]]
		} else {
			kd = vKinds[vChoice("kind", len(vKinds))]
		}
		vAssume(kd.declared) // structural equivalence is about well-formed specs
		if i > 0 {
			spec += " "
		}
		toks = append(toks, &lexer.Token{Typ: kd.typ, Val: kd.val, Pos: len(spec)})
		if kd.typ == lexer.TTOptSeq {
			spec += "-"
		}
		spec += kd.val
		ks = append(ks, kd)
	}
	vLimitCalls("fsm.State.simplifySelf", 40*(n+2)*(n+2))
	var start *fsm.State
	var err error
	var rec interface{}
	func() {
		defer func() { rec = recover() }()
		start, err = Parse(toks, vParams(spec))
	}()
	vAssert(rec == nil, "Parse panicked")
	if err != nil {
		return
	}
	rp := &rastParser{ts: ks}
	ast := rp.seq(false)
	vAssume(!rp.bad && rp.pos == len(ks)) // (agreement of the verdicts is H_parse_ref's assertion)
	vCover("compiled")

	var labels []string
	// implementation graph
	var states []*fsm.State
	index := func(s *fsm.State) int {
		for i, x := range states {
			if x == s {
				return i
			}
		}
		states = append(states, s)
		return len(states) - 1
	}
	impl := vNFA{}
	index(start)
	for i := 0; i < len(states); i++ {
		s := states[i]
		if s.Terminal {
			impl.acc = append(impl.acc, i)
		}
		for _, tr := range s.Transitions {
			vAssert(!matcher.IsShortcut(tr.Matcher), "C01-S: a shortcut transition survived Prepare")
			l := tr.Matcher.(fmt.Stringer).String()
			impl.trans = append(impl.trans, i, vLabelID(&labels, l), index(tr.Next))
		}
	}
	impl.n = len(states)
	// reference automaton
	g := &glu{}
	nullable, first, last := g.build(ast)
	ref := vNFA{n: len(g.labels) + 1}
	for _, p := range first {
		ref.trans = append(ref.trans, 0, vLabelID(&labels, g.labels[p-1]), p)
	}
	for p := 1; p <= len(g.labels); p++ {
		for _, q := range g.follow[p-1] {
			ref.trans = append(ref.trans, p, vLabelID(&labels, g.labels[q-1]), q)
		}
	}
	if nullable {
		ref.acc = append(ref.acc, 0)
	}
	ref.acc = append(ref.acc, last...)
	vObserve("impl.states", impl.n)
	vObserve("ref.states", ref.n)
	vAssert(impl.n <= 30 && ref.n <= 30, "automaton larger than the encoding supports")
	eq := vNFAEquiv(impl.n, impl.trans, impl.acc, ref.n, ref.trans, ref.acc, len(labels))
	vAssert(eq, "C01-S: the compiled state graph does not denote the language of the spec (over matcher labels)")
}
