package parser

// Harnesses for the spec parser on token sequences (C08 H_parse_ref, C03
// H_parse_total). The reference is a memoised recogniser (sets of end positions per
// non-terminal and start position) for the token-level grammar of DESIGN.md 4.1.

import (
	"github.com/jawher/mow.cli/internal/container"
	"github.com/jawher/mow.cli/internal/lexer"
	"github.com/jawher/mow.cli/internal/values"
)

func init() {
	vRegister("H_parse_ref", H_parse_ref)
}

type vKind struct {
	typ      lexer.TokenType
	val      string
	cls      byte // A O V R ( ) [ ] | E
	declared bool
	optLike  bool
	takesVal bool
}

var vKinds = []vKind{
	{lexer.TTArg, "X", 'A', true, false, false},
	{lexer.TTArg, "Z", 'A', false, false, false},
	{lexer.TTOptions, "OPTIONS", 'O', true, true, false},
	{lexer.TTShortOpt, "-a", 'O', true, true, true},
	{lexer.TTShortOpt, "-z", 'O', false, true, true},
	{lexer.TTLongOpt, "--oo", 'O', true, true, true},
	{lexer.TTOptSeq, "ao", 'O', true, true, false},
	{lexer.TTOptSeq, "az", 'O', false, true, false},
	{lexer.TTOptValue, "=<v>", 'V', true, false, false},
	{lexer.TTRep, "...", 'R', true, false, false},
	{lexer.TTOpenPar, "(", '(', true, false, false},
	{lexer.TTClosePar, ")", ')', true, false, false},
	{lexer.TTOpenSq, "[", '[', true, false, false},
	{lexer.TTCloseSq, "]", ']', true, false, false},
	{lexer.TTChoice, "|", '|', true, false, false},
	{lexer.TTDoubleDash, "--", 'E', true, false, false},
}

func vParams(spec string) Params {
	a := &container.Container{Name: "a", Names: []string{"-a", "--aa"}, Value: values.NewBool(new(bool), false)}
	o := &container.Container{Name: "o", Names: []string{"-o", "--oo"}, Value: values.NewStrings(new([]string), nil)}
	x := &container.Container{Name: "X", Value: values.NewStrings(new([]string), nil)}
	return Params{
		Spec:       spec,
		Options:    []*container.Container{a, o},
		OptionsIdx: map[string]*container.Container{"-a": a, "--aa": a, "-o": o, "--oo": o},
		Args:       []*container.Container{x},
		ArgsIdx:    map[string]*container.Container{"X": x},
	}
}

// ---- reference recogniser

const (
	ntSeq = iota
	ntSeq1
	ntItem
	ntUnit
	nNT
)

type refP struct {
	ts   []vKind
	bad  []bool
	memo map[int][]int
	done map[int]bool
}

func vAddInt(xs []int, v int) []int {
	for _, x := range xs {
		if x == v {
			return xs
		}
	}
	return append(xs, v)
}

func (r *refP) ends(nt, i int) []int {
	key := nt*64 + i
	if r.done[key] {
		return r.memo[key]
	}
	var out []int
	switch nt {
	case ntSeq, ntSeq1:
		// closure of ends(ntItem, .) from i
		var reach []int
		frontier := []int{i}
		for len(frontier) > 0 {
			var nf []int
			for _, p := range frontier {
				for _, e := range r.ends(ntItem, p) {
					if e == p {
						continue
					}
					before := len(reach)
					reach = vAddInt(reach, e)
					if len(reach) > before {
						nf = append(nf, e)
					}
				}
			}
			frontier = nf
		}
		out = reach
		if nt == ntSeq {
			out = vAddInt(out, i)
		}
	case ntItem:
		// unit ('|' unit)*
		frontier := r.ends(ntUnit, i)
		for _, e := range frontier {
			out = vAddInt(out, e)
		}
		for len(frontier) > 0 {
			var nf []int
			for _, p := range frontier {
				if p < len(r.ts) && r.ts[p].cls == '|' {
					for _, e := range r.ends(ntUnit, p+1) {
						before := len(out)
						out = vAddInt(out, e)
						if len(out) > before {
							nf = append(nf, e)
						}
					}
				}
			}
			frontier = nf
		}
	case ntUnit:
		if i >= len(r.ts) || r.bad[i] {
			break
		}
		var cores []int
		t := r.ts[i]
		switch t.cls {
		case 'E':
			out = []int{i + 1}
			r.done[key] = true
			r.memo[key] = out
			return out
		case 'A':
			cores = []int{i + 1}
		case 'O':
			cores = []int{i + 1}
			if t.takesVal && i+1 < len(r.ts) && r.ts[i+1].cls == 'V' {
				cores = []int{i + 2}
			}
		case '(', '[':
			closer := byte(')')
			if t.cls == '[' {
				closer = ']'
			}
			for _, e := range r.ends(ntSeq1, i+1) {
				if e < len(r.ts) && r.ts[e].cls == closer {
					cores = append(cores, e+1)
				}
			}
		}
		for _, c := range cores {
			if c < len(r.ts) && r.ts[c].cls == 'R' {
				out = vAddInt(out, c+1)
			} else {
				out = vAddInt(out, c)
			}
		}
	}
	r.done[key] = true
	r.memo[key] = out
	return out
}

func vNewRef(ts []vKind) *refP {
	r := &refP{ts: ts, bad: make([]bool, len(ts)), memo: map[int][]int{}, done: map[int]bool{}}
	seenEnd := false
	for i, t := range ts {
		if !t.declared {
			r.bad[i] = true
		}
		if t.optLike && seenEnd {
			r.bad[i] = true
		}
		if t.cls == 'E' {
			seenEnd = true
		}
	}
	return r
}

func vMember(ts []vKind) bool {
	r := vNewRef(ts)
	for _, e := range r.ends(ntSeq, 0) {
		if e == len(ts) {
			return true
		}
	}
	return false
}

// vViable: some completion over {X, ')', ']'} of at most 5 tokens makes ts a sentence.
func vViable(ts []vKind, budget int) bool {
	if vMember(ts) {
		return true
	}
	if budget == 0 {
		return false
	}
	for _, k := range []int{0, 11, 13} {
		if vViable(append(append([]vKind(nil), ts...), vKinds[k]), budget-1) {
			return true
		}
	}
	return false
}

func vOpen(ts []vKind) int {
	d := 0
	for _, t := range ts {
		if t.cls == '(' || t.cls == '[' {
			d++
		}
		if t.cls == ')' || t.cls == ']' {
			d--
		}
	}
	return d
}

// H_parse_ref: Parse accepts a token sequence iff the reference grammar does; on
// failure the position is that of the first token that makes the prefix non-viable
// (or the end of the spec); Parse never panics.
func H_parse_ref() {
	k := vParamInt("k")
	n := vChoice("ntok", k+1)
	var ks []vKind
	var toks []*lexer.Token
	spec := ""
	for i := 0; i < n; i++ {
		kd := vKinds[vChoice("kind", len(vKinds))]
		if i > 0 {
			spec += " "
		}
		toks = append(toks, &lexer.Token{Typ: kd.typ, Val: kd.val, Pos: len(spec)})
		if kd.typ == lexer.TTOptSeq {
			spec += "-"
		}
		spec += kd.val
		ks = append(ks, kd)
	}
	vLimitCalls("fsm.State.simplifySelf", 40*(n+2)*(n+2))
	var rec interface{}
	var err error
	func() {
		defer func() { rec = recover() }()
		_, err = Parse(toks, vParams(spec))
	}()
	vObserve("ok", err == nil)
	vAssert(rec == nil, "Parse panicked")
	want := vMember(ks)
	vAssert((err == nil) == want, "Parse verdict differs from the reference grammar")
	if err == nil {
		vCover("accepted")
		return
	}
	vCover("rejected")
	pe, isPE := err.(*lexer.ParseError)
	vAssert(isPE, "error is not a ParseError")
	vObserve("pos", pe.Pos)
	vAssert(pe.Pos >= 0 && pe.Pos <= len(spec), "error position outside the spec")
	vAssert(pe.Input == spec, "error does not carry the spec")
	// position: a token start, or the end
	idx := n
	for i, t := range toks {
		if t.Pos == pe.Pos {
			idx = i
		}
	}
	vAssert(idx < n || pe.Pos == len(spec), "error position is not at a token")
	// the prefix before the offending token is viable, the prefix including it is not
	if n <= 4 {
		budget := vOpen(ks[:idx]) + 1
		vAssert(vViable(ks[:idx], budget), "tokens before the reported position are not a viable prefix")
		if idx < n {
			vAssert(!vViable(ks[:idx+1], vOpen(ks[:idx+1])+1), "the reported token does not make the prefix non-viable")
		}
	}
}
