package cli

// Relational (2-safety) harnesses: the real code is run twice on related inputs and
// must produce the same outcome. C09 (insertion of `--`), C10 (re-spelling), C11
// (swap of adjacent occurrences), C12 (environment on/off).

import "flag"

func init() {
	vRegister("H_dd_insert", H_dd_insert)
	vRegister("H_respell", H_respell)
	vRegister("H_swap", H_swap)
	vRegister("H_envmono", H_envmono)
}

// ---------------------------------------------------------------------------------
// C09

func H_dd_insert() {
	spec := vParamString("spec")
	root, ok := rParseSpec(spec)
	vAssert(ok, "family spec is not well-formed for the reference")
	vAssert(!rHasEnd(root), "H_dd_insert is for specs without a spec-level --")
	argv := vArgvFor(vParamString("profile"))
	vNoHelp(argv)
	p := vChoice("p", len(argv)+1)
	// which tokens are values of a separately written valued option (DESIGN 4.2)
	isValue := make([]bool, len(argv)+1)
	for i := 0; i < len(argv); i++ {
		if isValue[i] {
			continue
		}
		next, hasNext := "", i+1 < len(argv)
		if hasNext {
			next = argv[i+1]
		}
		_, occs, _ := rRead(argv[i], next, hasNext)
		for _, oc := range occs {
			if oc.width == 2 {
				isValue[i+1] = true
			}
		}
	}
	vAssume(!isValue[p])
	for i := 0; i < p; i++ {
		vAssume(argv[i] != "--")
	}
	for i := p; i < len(argv); i++ {
		vAssume(!rHasDashPrefix(argv[i]))
	}
	with := append(append(append([]string(nil), argv[:p]...), "--"), argv[p:]...)
	cfg := vAppCfg{spec: spec, policy: flag.ContinueOnError}
	o1 := vRunTable(cfg, argv)
	o2 := vRunTable(cfg, with)
	vObserveOutcome("plain", o1)
	vObserveOutcome("with", o2)
	if p == len(argv) {
		vCover("insert-at-end")
	}
	if o1.ran == 1 {
		vCover("accepted")
	}
	vAssert(!o1.panicked && !o2.panicked, "Run panicked")
	vAssert(vSameOutcome(o1, o2), "C09: inserting `--` in front of the trailing positionals changed the outcome")
}

// ---------------------------------------------------------------------------------
// items: an abstract command line

const (
	itFlag = iota
	itVal
	itPos
	itDD
	itDash
	nItemKinds
)

type vItem struct {
	kind    int
	opt     int
	payload string
}

// vFlagsOnly: items are occurrences of the two flags only and are spelled -f or --ff
// (deep folds of repeated flags at small cost).
var vFlagsOnly bool

func vItems(maxN, lp int) []vItem {
	n := vChoice("n", maxN+1)
	var items []vItem
	seenDD := false
	for i := 0; i < n; i++ {
		k := itFlag
		if !vFlagsOnly {
			k = vChoice("kind", nItemKinds)
		}
		it := vItem{kind: k}
		switch k {
		case itFlag:
			vAssume(!seenDD)
			it.opt = vFlagSel()
		case itVal:
			vAssume(!seenDD)
			it.opt = vValSel()
			it.payload = vNondetString("payload", lp)
			vAssume(len(it.payload) > 0)
		case itPos:
			it.payload = vNondetString("payload", lp)
			vAssume(len(it.payload) > 0)
			if !seenDD {
				vAssume(it.payload[0] != '-')
			}
		case itDD:
			seenDD = true
		}
		items = append(items, it)
	}
	return items
}

// a spelling vector: per item a form and a fold bit
type vSpelling struct {
	form []int
	fold []bool
}

func vSpellingFor(items []vItem, tag string) vSpelling {
	var s vSpelling
	for _, it := range items {
		f := 0
		fold := false
		switch it.kind {
		case itFlag:
			if vFlagsOnly {
				f = vChoice(tag+".form", 2)
			} else {
				f = vChoice(tag+".form", 4)
			}
			fold = vChoice(tag+".fold", 2) == 1
		case itVal:
			f = vChoice(tag+".form", 5)
			fold = vChoice(tag+".fold", 2) == 1
		}
		s.form = append(s.form, f)
		s.fold = append(s.fold, fold)
	}
	return s
}

// vSpell turns items into tokens. Forms: flag 0 -f, 1 --ff, 2 -f=true, 3 --ff=true;
// valued 0 -o v, 1 -o=v, 2 -ov, 3 --oo v, 4 --oo=v. The fold bit of an item asks to
// join the folded token left open by the preceding item (short forms only).
func vSpell(items []vItem, s vSpelling) []string {
	var argv []string
	open := false // the last token is a fold of flags that can still grow
	for i, it := range items {
		switch it.kind {
		case itFlag:
			letter := vShortOf(it.opt)
			switch s.form[i] {
			case 0:
				if open && s.fold[i] {
					argv[len(argv)-1] += letter
				} else {
					argv = append(argv, "-"+letter)
				}
				open = true
				continue
			case 1:
				argv = append(argv, "--"+vOptTable[it.opt].long)
			case 2:
				argv = append(argv, "-"+letter+"=true")
			case 3:
				argv = append(argv, "--"+vOptTable[it.opt].long+"=true")
			}
		case itVal:
			letter := vShortOf(it.opt)
			switch s.form[i] {
			case 0:
				vAssume(it.payload[0] != '-')
				if open && s.fold[i] {
					argv[len(argv)-1] += letter
					argv = append(argv, it.payload)
				} else {
					argv = append(argv, "-"+letter, it.payload)
				}
			case 1:
				argv = append(argv, "-"+letter+"="+it.payload)
			case 2:
				vAssume(it.payload[0] != '=')
				if open && s.fold[i] {
					argv[len(argv)-1] += letter + it.payload
				} else {
					argv = append(argv, "-"+letter+it.payload)
				}
			case 3:
				vAssume(it.payload[0] != '-')
				argv = append(argv, "--"+vOptTable[it.opt].long, it.payload)
			case 4:
				argv = append(argv, "--"+vOptTable[it.opt].long+"="+it.payload)
			}
		case itPos:
			argv = append(argv, it.payload)
		case itDD:
			argv = append(argv, "--")
		case itDash:
			argv = append(argv, "-")
		}
		open = false
	}
	return argv
}

func vObserveArgv(tag string, argv []string) { vObserve(tag, argv) }

// vCanonical: every occurrence in its own token, long form with '='.
func vCanonical(items []vItem) vSpelling {
	var s vSpelling
	for _, it := range items {
		f := 0
		switch it.kind {
		case itFlag:
			f = 1
		case itVal:
			f = 4
		}
		s.form = append(s.form, f)
		s.fold = append(s.fold, false)
	}
	return s
}

// C10: an arbitrary spelling (forms and folds) of a command line behaves like its
// canonical spelling; by transitivity any two spellings behave alike.
func H_respell() {
	vUseNames(vParamInt("names"))
	vCustomFlags = vParamInt("custom") == 1
	vCustomVals = vParamInt("custom") == 2
	spec := vParamString("spec")
	vFlagsOnly = vParamInt("flagsOnly") == 1
	items := vItems(vParamInt("n"), vParamInt("Lp"))
	s2 := vSpellingFor(items, "s")
	a1 := vSpell(items, vCanonical(items))
	a2 := vSpell(items, s2)
	vNoHelp(a1)
	vNoHelp(a2)
	cfg := vAppCfg{spec: spec, policy: flag.ContinueOnError}
	o1 := vRunTable(cfg, a1)
	o2 := vRunTable(cfg, a2)
	vObserveArgv("argv1", a1)
	vObserveArgv("argv2", a2)
	vObserveOutcome("o1", o1)
	vObserveOutcome("o2", o2)
	if o1.ran == 1 {
		vCover("accepted")
	} else {
		vCover("rejected")
	}
	vAssert(!o1.panicked && !o2.panicked, "Run panicked")
	vAssert(vSameOutcome(o1, o2), "C10: re-spelling option occurrences changed the outcome")
}

// C11
func H_swap() {
	vCustomFlags = vParamInt("custom") == 1
	vCustomVals = vParamInt("custom") == 2
	spec := vParamString("spec")
	vFlagsOnly = vParamInt("flagsOnly") == 1
	items := vItems(vParamInt("n"), vParamInt("Lp"))
	vAssume(len(items) >= 2)
	j := vChoice("j", len(items)-1)
	x, y := items[j], items[j+1]
	vAssume(x.kind == itFlag || x.kind == itVal)
	vAssume(y.kind == itFlag || y.kind == itVal)
	vAssume(x.opt != y.opt)
	sp := vSpellingFor(items, "s")
	swapped := append([]vItem(nil), items...)
	swapped[j], swapped[j+1] = swapped[j+1], swapped[j]
	sp2 := vSpelling{form: append([]int(nil), sp.form...), fold: append([]bool(nil), sp.fold...)}
	sp2.form[j], sp2.form[j+1] = sp2.form[j+1], sp2.form[j]
	a1 := vSpell(items, sp)
	a2 := vSpell(swapped, sp2)
	vNoHelp(a1)
	vNoHelp(a2)
	cfg := vAppCfg{spec: spec, policy: flag.ContinueOnError}
	if vParamInt("env") == 1 {
		// commutation must also hold when options are backed by environment variables
		cfg.envAll = true
		vEnvCandidates = vParamInt("envmask")
		vSymbolicEnv()
	}
	o1 := vRunTable(cfg, a1)
	o2 := vRunTable(cfg, a2)
	vObserveArgv("argv1", a1)
	vObserveArgv("argv2", a2)
	vObserveOutcome("o1", o1)
	vObserveOutcome("o2", o2)
	if o1.ran == 1 {
		vCover("accepted")
	} else {
		vCover("rejected")
	}
	vAssert(!o1.panicked && !o2.panicked, "Run panicked")
	vAssert(vSameOutcome(o1, o2), "C11: swapping adjacent occurrences of different options changed the outcome")
}

// ---------------------------------------------------------------------------------
// C12

func vHasGroup(n *rNode) bool {
	if n.kind == nGroup {
		return true
	}
	for _, k := range n.kids {
		if vHasGroup(k) {
			return true
		}
	}
	return false
}

func H_envmono() {
	spec := vParamString("spec")
	root, ok := rParseSpec(spec)
	vAssert(ok, "family spec is not well-formed for the reference")
	argv := vArgvFor(vParamString("profile"))
	vNoHelp(argv)
	for _, t := range argv {
		vAssume(!vFoldEq(t))
	}
	cfg := vAppCfg{spec: spec, envAll: true, policy: flag.ContinueOnError, defEqEnv: vParamInt("defEqEnv") == 1}
	// run 1: no variable set
	off := vRunTable(cfg, argv)
	// run 2: a symbolic subset set to valid values
	vEnvCandidates = vParamInt("envmask")
	set := vSymbolicEnv()
	on := vRunTable(cfg, argv)
	vObserveOutcome("off", off)
	vObserveOutcome("on", on)
	vAssert(!off.panicked && !on.panicked, "Run panicked")
	if off.ran == 1 {
		vCover("accepted-without-env")
		if on.ran != 1 {
			if vKnownFinding("F6") && set[oE] {
				vCover("KNOWN:F6")
				return
			}
			vAssert(false, "C12: a command line accepted without the environment is rejected with it")
		}
		// C15, absolute form: without environment values and with empty defaults, a list
		// parameter holds values exactly when the command line supplied them, and a flag
		// can only be true when the command line set it - also for parameters that were
		// bound on an abandoned branch of the matcher
		if !cfg.defEqEnv {
			vAssert(off.userArg[0] == (len(off.x) > 0) && off.userArg[1] == (len(off.y) > 0), "C15: SetByUser of an argument disagrees with what the command line bound to it")
			vAssert(off.user[oO] == (len(off.o) > 0) && off.user[oE] == (len(off.e) > 0), "C15: SetByUser of an option disagrees with what the command line bound to it")
			vAssert((!off.a || off.user[oA]) && (!off.b || off.user[oB]), "C15: a flag is set although SetByUser says the command line did not set it")
		}
		// C15 seen from here: which parameters were set by the user depends on the command
		// line only, not on the environment
		if !rHasEnd(root) && on.ran == 1 {
			vAssert(on.user == off.user && on.userArg == off.userArg, "C15/C12: SetByUser changed although the command line is the same")
		}
		if !rHasEnd(root) {
			// identical values for every option written on the command line
			if off.user[oA] {
				vAssert(on.a == off.a, "C12: value of -a written on the command line changed")
			}
			if off.user[oB] {
				vAssert(on.b == off.b, "C12: value of -b written on the command line changed")
			}
			if off.user[oO] {
				vAssert(vEqStrs(on.o, off.o), "C12: values of -o written on the command line changed")
			}
			if off.user[oE] {
				vAssert(vEqStrs(on.e, off.e), "C12: values of -e written on the command line changed")
			}
			vAssert(vEqStrs(on.x, off.x) && vEqStrs(on.y, off.y), "C12: positional values changed")
		}
	}
	// differential clause for group-free specs: acceptance with the variables set is
	// what the reference predicts (an absent env-backed option is satisfied)
	if !vHasGroup(root) {
		m := &rMatcher{strictDash: true, hasEnd: rHasEnd(root), envSet: set}
		derivs := m.accepting(root, argv)
		if m.outside {
			return
		}
		refAccept := false
		for _, d := range derivs {
			if okc, _, _ := rFlagsParse(d); okc {
				refAccept = true
			}
		}
		vObserve("ref.on", refAccept)
		if refAccept {
			vCover("ref-accepts-with-env")
		}
		vAssert((on.ran == 1) == refAccept, "C01/C12: acceptance with environment values differs from the reference (an absent env-backed option is satisfied)")
	}
}
