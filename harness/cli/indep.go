package cli

// C20: applications are independent and deterministic.
// (1) footprint: no store of the library targets a package-level variable, loads of
//     package-level variables are confined to the stream / exit indirections and the
//     two sentinel errors; (2) non-interference: running another application before
//     does not change an application's outcome; (3) determinism: rebuilding and
//     rerunning yields the same outcome under every map iteration order.

import "flag"

func init() {
	vRegister("H_indep", H_indep)
}

var vIndepSpecs = []string{"[-a] [-o] X...", "[OPTIONS] X [Y]", "(-o X)... | -ab", "X... Y", "-a -b | [-o...] X", "[-ab | -o] X", "[OPTIONS] [X]"}

func H_indep() {
	vUseNames(vParamInt("names"))
	sa := vIndepSpecs[vParamInt("specA")]
	sb := vIndepSpecs[vParamInt("specB")]
	mode := vParamString("mode")
	argvA := vArgvFor(vParamString("profile"))
	vNoHelp(argvA)
	vResetShared()
	cfgA := vAppCfg{spec: sa, envAll: true, policy: flag.ContinueOnError, shared: true, version: true}
	vEnvCandidates = 15
	env := vSymbolicEnv()
	switch mode {
	case "footprint":
		stdErr = vDiscard{}
		stdOut = vDiscard{}
		vFootprintReset()
		a1 := vRunTable(cfgA, argvA)
		stores := vGlobalStores()
		loads := vGlobalLoads()
		vObserveOutcome("a", a1)
		vAssert(len(stores) == 0, "C20 [engine-observed]: the library stored to package-level state (a variable, or an object reachable from one) while building or running an application")
		for _, g := range loads {
			ok := g == "stdErr" || g == "stdOut" || g == "exiter" || g == "errHelpRequested" || g == "errVersionRequested"
			vAssert(ok, "C20 [engine-observed]: the library read a package-level variable other than the stream/exit indirections and sentinel errors")
		}
		vCover("footprint")
	case "interfere":
		argvB := vRawArgv(2, 2)
		vNoHelp(argvB)
		cfgB := vAppCfg{spec: sb, envAll: true, policy: flag.ContinueOnError, shared: true}
		// the applications share declaration data (one default slice), as two instances
		// of one program would; B runs on its own input between two runs of A
		bFirst := vRunTable(cfgB, argvB)
		alone := vRunTable(cfgA, argvA)
		bAlone := vRunTable(cfgB, argvB)
		after := vRunTable(cfgA, argvA) // A after B (and after a first A)
		bAfter := vRunTable(cfgB, argvB)
		vAssert(vSameOutcome(bFirst, bAlone), "C20: an application's outcome changed after another application ran")
		vAssert(vEqStrs(vSharedDefault, []string{"p", "q"}), "C20: the library wrote through declaration data shared between applications")
		vObserveOutcome("alone", alone)
		vObserveOutcome("after", after)
		vAssert(vSameOutcome(alone, after), "C20: an application's outcome changed after another application ran")
		vAssert(vSameOutcome(bAlone, bAfter), "C20: an application's outcome changed after another application ran")
		vCover("interfere")
	case "determinism":
		vMapOrder(2)
		// the same application rebuilt and rerun on the very same argument vector
		full := append([]string{"app"}, argvA...)
		r1 := vBuildTable(cfgA).run(full)
		r2 := vBuildTable(cfgA).run(full)
		vObserveOutcome("r1", r1)
		vAssert(r1.argvIntact && r2.argvIntact, "C20: the library modified the caller's argument vector")
		vAssert(vSameOutcome(r1, r2), "C20: rebuilding and rerunning the same application gave a different outcome")
		vCover("determinism")
	case "sharedvar":
		// an option and an argument bound to one variable: the argument is filled last,
		// whatever order maps are iterated in
		vMapOrder(2)
		res := func() (int, bool) {
			stdErr = vDiscard{}
			exiter = func(code int) { panic(vExitPanic{code}) }
			app := App("app", "")
			app.ErrorHandling = flag.ContinueOnError
			n := 0
			app.IntOptPtr(&n, "n", 7, "")
			app.IntArgPtr(&n, "N", 7, "")
			app.Spec = "[-n] [N]"
			var err error
			func() {
				defer func() { recover() }()
				err = app.Run([]string{"app", "-n=1", "2"})
			}()
			return n, err != nil
		}
		n1, e1 := res()
		n2, e2 := res()
		vObserve("n", n1)
		vAssert(n1 == n2 && e1 == e2, "C20: rebuilding and rerunning the same application gave a different outcome")
		vAssert(n1 == 2 && !e1, "C20: options are applied before arguments")
		vCover("sharedvar")
	case "envtime":
		// the outcome depends on the environment at declaration time only: variables that
		// appear between declaration and Run (set by another application's Action, say)
		// change nothing
		ref := vBuildTable(cfgA).run(append([]string{"app"}, argvA...))
		app := vBuildTable(cfgA)
		for i := 0; i < nOpts; i++ {
			if !env[i] && vNondetBool("late."+vEnvNames[i]) {
				vSetenv(vEnvNames[i], vEnvVals[i])
			}
		}
		late := app.run(append([]string{"app"}, argvA...))
		vObserveOutcome("ref", ref)
		vObserveOutcome("late", late)
		vAssert(vSameOutcome(ref, late), "C20: the outcome depends on the environment at Run time, not only at declaration time")
		vCover("envtime")
	}
}
