package cli

// C19: custom value types are driven through the documented protocol. Eight recorder
// types (every combination of IsBoolFlag, Clear, IsDefault) log their Set / Clear
// calls; Set fails on a symbolic "poison" token.

import (
	"errors"
	"flag"
	"strings"
)

func init() {
	vRegister("H_custom", H_custom)
}

type vRecBase struct {
	log    []string
	poison string
	isFlag bool // what IsBoolFlag() answers, for the types that have the method
}

func (r *vRecBase) String() string { return "rec" }
func (r *vRecBase) Set(s string) error {
	r.log = append(r.log, "S"+s)
	if s == r.poison {
		return errors.New("poison")
	}
	return nil
}

type vRec000 struct{ vRecBase }
type vRec001 struct{ vRecBase } // IsDefault
type vRec010 struct{ vRecBase } // Clear
type vRec011 struct{ vRecBase }
type vRec100 struct{ vRecBase } // IsBoolFlag
type vRec101 struct{ vRecBase }
type vRec110 struct{ vRecBase }
type vRec111 struct{ vRecBase }

func (r *vRec001) IsDefault() bool  { return true }
func (r *vRec011) IsDefault() bool  { return true }
func (r *vRec101) IsDefault() bool  { return true }
func (r *vRec111) IsDefault() bool  { return true }
func (r *vRec010) Clear()           { r.log = append(r.log, "C") }
func (r *vRec011) Clear()           { r.log = append(r.log, "C") }
func (r *vRec110) Clear()           { r.log = append(r.log, "C") }
func (r *vRec111) Clear()           { r.log = append(r.log, "C") }
func (r *vRec100) IsBoolFlag() bool { return r.isFlag }
func (r *vRec101) IsBoolFlag() bool { return r.isFlag }
func (r *vRec110) IsBoolFlag() bool { return r.isFlag }
func (r *vRec111) IsBoolFlag() bool { return r.isFlag }

func vMkRec(c int, poison string) (flag.Value, *vRecBase) {
	switch c {
	case 0:
		r := &vRec000{vRecBase{poison: poison}}
		return r, &r.vRecBase
	case 1:
		r := &vRec001{vRecBase{poison: poison}}
		return r, &r.vRecBase
	case 2:
		r := &vRec010{vRecBase{poison: poison}}
		return r, &r.vRecBase
	case 3:
		r := &vRec011{vRecBase{poison: poison}}
		return r, &r.vRecBase
	case 4:
		r := &vRec100{vRecBase{poison: poison}}
		return r, &r.vRecBase
	case 5:
		r := &vRec101{vRecBase{poison: poison}}
		return r, &r.vRecBase
	case 6:
		r := &vRec110{vRecBase{poison: poison}}
		return r, &r.vRecBase
	}
	r := &vRec111{vRecBase{poison: poison}}
	return r, &r.vRecBase
}

func H_custom() {
	c := vParamInt("combo") // bit 2 IsBoolFlag, bit 1 Clear, bit 0 IsDefault
	asOpt := vParamInt("opt") == 1
	lp := vParamInt("Lp")
	flagAnswer := vParamInt("flagAnswer") == 1 // what IsBoolFlag() returns when the type has the method
	isBool := c&4 != 0 && flagAnswer
	multi := c&2 != 0
	poison := vNondetString("poison", lp)
	val, rec := vMkRec(c, poison)
	rec.isFlag = flagAnswer
	// environment
	short := vParamInt("short") == 1 // VarOpt(name, value, desc) / VarArg(...): no environment variable, no SetByUser
	env := ""
	if !short {
		env = vAsciiString("env", vParamInt("envLen"))
	}
	if env != "" {
		vSetenv("CE", env)
	}
	// command line: 0..2 values; a flag-like option may be written without value
	ncli := vChoice("ncli", 3)
	var cli []string // the tokens the value must receive
	var argv []string
	withFold := vParamInt("fold") == 1
	failedRun := false
	usedFold := false
	foldVal := ""
	for i := 0; i < ncli; i++ {
		if asOpt && isBool && vChoice("bare", 2) == 1 {
			if withFold && !usedFold && vChoice("folded", 2) == 1 {
				// the flag folded in front of a valued option whose attached value may contain
				// the flag's own letter: -xo<q>
				usedFold = true
				foldVal = vNondetString("foldval", 2)
				vAssume(len(foldVal) > 0 && foldVal[0] != '-' && foldVal[0] != '=')
				argv = append(argv, "-xo"+foldVal)
			} else {
				argv = append(argv, "-x")
			}
			cli = append(cli, "true")
			continue
		}
		p := vNondetString("cli", lp)
		vAssume(len(p) > 0)
		cli = append(cli, p)
		if asOpt {
			if !isBool && p[0] != '-' && vChoice("separate", 2) == 1 {
				argv = append(argv, "-x", p) // a type that is not a flag takes its value from the next token
			} else {
				argv = append(argv, "--xx="+p)
			}
		}
	}
	if withFold && !usedFold && len(argv) == 2 && argv[0] == "-x" && argv[1] == "-x" && vChoice("behind", 2) == 1 {
		// three bare occurrences folded into one token that is not the first one: -o q -xxx
		usedFold = true
		foldVal = "q"
		argv = []string{"-o", "q", "-xxx"}
		cli = []string{"true", "true", "true"}
	}
	if !asOpt {
		argv = append([]string{"--"}, cli...)
	}

	stdErr = vDiscard{}
	stdOut = vDiscard{}
	exiter = func(code int) { panic(vExitPanic{code}) }
	app := App("app", "")
	app.ErrorHandling = flag.ContinueOnError
	var user bool
	if asOpt {
		if short {
			app.VarOpt("x xx", val, "")
		} else {
			app.Var(VarOpt{Name: "x xx", Value: val, EnvVar: "CE", SetByUser: &user, HideValue: true})
		}
		app.Spec = "[-x...]"
		if vParamInt("group") == 1 {
			app.Spec = "[OPTIONS]" // the same values through an option group
		}
		var other *string
		if withFold {
			other = app.String(StringOpt{Name: "o"})
			app.Spec = "[-x...] [-o]"
			defer func() {
				if usedFold && !failedRun {
					vAssert(*other == foldVal, "C19: a value attached to another option in the same fold was altered")
				}
			}()
		}
		if vParamInt("withArg") == 1 {
			// a positional argument that always converts follows the option values
			app.String(StringArg{Name: "Y"})
			app.Spec = "[-x...] [Y]"
			argv = append(argv, "pos")
		}
	} else {
		if short {
			app.VarArg("X", val, "")
		} else {
			app.Var(VarArg{Name: "X", Value: val, EnvVar: "CE", SetByUser: &user, HideValue: true})
		}
		app.Spec = "[X...]"
	}
	declLog := append([]string(nil), rec.log...)

	// oracle, declaration time
	var wantDecl []string
	if env != "" {
		if !multi {
			wantDecl = append(wantDecl, "S"+env)
		} else {
			wantDecl = append(wantDecl, "C")
			for _, piece := range strings.Split(env, ",") {
				t := strings.TrimSpace(piece)
				wantDecl = append(wantDecl, "S"+t)
				if t == poison {
					wantDecl = append(wantDecl, "C")
					break
				}
			}
		}
	}
	vAssert(vEqStrs(declLog, wantDecl), "C19: calls made at declaration time (environment) differ from the protocol")

	rec.log = nil
	ran := 0
	app.Action = func() { ran++ }
	var err error
	var pv interface{}
	func() {
		defer func() { pv = recover() }()
		err = app.Run(append([]string{"app"}, argv...))
	}()
	vAssert(pv == nil, "Run panicked")
	// oracle, parse time
	var wantRun []string
	failed := false
	if len(cli) > 0 {
		if multi {
			wantRun = append(wantRun, "C")
		}
		for _, v := range cli {
			wantRun = append(wantRun, "S"+v)
			if v == poison {
				failed = true
				break
			}
		}
	}
	vObserve("log", rec.log)
	vObserve("ran", ran)
	vAssert(vEqStrs(rec.log, wantRun), "C19/C02: Set/Clear calls at parse time differ from the protocol (exactly the bound tokens, in order; Clear once before them iff multi-valued)")
	failedRun = failed
	if failed {
		vCover("set-failed")
		vAssert(ran == 0 && err != nil, "C19: an error returned by Set must make the invocation a usage error")
	} else {
		vCover("ok")
		vAssert(ran == 1 && err == nil, "C19: a valid invocation was rejected")
		if !short {
			vAssert(user == (len(cli) > 0), "C19/C15: SetByUser")
		}
	}
}
