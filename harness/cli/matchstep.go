package cli

// C01-M: one step of each matcher against the reference step (DESIGN 4.4) on raw
// argument vectors that are longer / wider than the end-to-end units can afford:
// verdict, remaining tokens (the token surgery of matchShortOpt) and collected value.

import (
	"github.com/jawher/mow.cli/internal/container"
	"github.com/jawher/mow.cli/internal/matcher"
)

func init() {
	vRegister("H_match_step", H_match_step)
}

func vTableContainers() ([]*container.Container, map[string]*container.Container, []*container.Container) {
	c := App("app", "")
	c.Bool(BoolOpt{Name: "a aa"})
	c.Bool(BoolOpt{Name: "b bb"})
	c.Strings(StringsOpt{Name: "o oo"})
	c.Strings(StringsOpt{Name: "e ee"})
	c.Strings(StringsArg{Name: "X"})
	return c.options, c.optionsIdx, c.args
}

func H_match_step() {
	kind := vParamString("matcher") // "opt", "group", "arg"
	opts, idx, args := vTableContainers()
	argv := vRawArgv(vParamInt("K"), vParamInt("L"))
	for _, t := range argv {
		vAssume(!vFoldEq(t))
	}
	reject := vNondetBool("rejectOptions")
	pc := matcher.NewParseContext()
	pc.RejectOptions = reject
	rm := &rMatcher{strictDash: true, hasEnd: true} // hasEnd: flag scans that stop at a malformed occurrence of a declared option
	switch kind {
	case "opt":
		o := vChoice("theOne", nOpts)
		ok, rest := matcher.NewOpt(opts[o], idx).Match(argv, &pc)
		vObserve("ok", ok)
		vObserve("rest", rest)
		if len(argv) == 0 || reject {
			vCover("no-scan")
			vAssert(!ok && vEqStrs(rest, argv) && len(pc.Opts) == 0, "C01-M: an option matcher must not match without arguments or after `--`")
			return
		}
		v, rrest, rok, _ := rm.extract(o, argv)
		if rm.outside {
			vCover("outside-claim-4.5")
			return
		}
		vAssert(ok == rok, "C01-M: option matcher verdict differs from the reference extraction")
		if !ok {
			vCover("not-found")
			vAssert(vEqStrs(rest, argv) && len(pc.Opts) == 0, "C01-M: a failed match must leave the arguments and the context alone")
			return
		}
		vCover("found")
		vAssert(vEqStrs(rest, rrest), "C01-M: remaining tokens after extracting an occurrence differ from the reference (token surgery)")
		vAssert(len(pc.Opts) == 1 && vEqStrs(pc.Opts[opts[o]], []string{v}), "C01-M: collected value differs from the occurrence's value")
	case "group":
		var group []int
		switch vParamInt("group") {
		case 0:
			group = []int{oA, oB}
		case 1:
			group = []int{oA, oO}
		case 2:
			group = []int{oA, oB, oO}
		default:
			group = []int{oA, oB, oO, oE}
		}
		var conts []*container.Container
		for _, g := range group {
			conts = append(conts, opts[g])
		}
		ok, rest := matcher.NewOptions(conts, idx).Match(argv, &pc)
		vObserve("ok", ok)
		vObserve("rest", rest)
		res := rm.match(&rNode{kind: nGroup, group: group}, rCfg{pos: reject, ts: argv})
		if rm.outside {
			vCover("outside-claim-4.5")
			return
		}
		if len(argv) > 0 && argv[0] == "--" && !reject {
			// the state machine strips a leading `--` before any matcher sees it
			vCover("leading-dd")
			return
		}
		vAssert(ok == (len(res) == 1), "C01-M: option-group verdict differs from the reference (maximal extraction)")
		if !ok {
			vCover("not-found")
			vAssert(vEqStrs(rest, argv), "C01-M: a failed group match must leave the arguments alone")
			return
		}
		vCover("found")
		vAssert(vEqStrs(rest, res[0].ts), "C01-M: remaining tokens after the option group differ from the reference")
		for _, g := range group {
			vAssert(vEqStrs(pc.Opts[opts[g]], res[0].b.opts[g]), "C01-M: values collected by the option group differ from the reference (per option, in order)")
		}
	case "arg":
		ok, rest := matcher.NewArg(args[0]).Match(argv, &pc)
		vObserve("ok", ok)
		want := len(argv) > 0 && (reject || !rHasDashPrefix(argv[0]) || argv[0] == "-")
		vAssert(ok == want, "C01-M: positional matcher verdict")
		if ok {
			vCover("found")
			vAssert(vEqStrs(rest, argv[1:]) && vEqStrs(pc.Args[args[0]], argv[:1]), "C01-M: a positional matcher consumes exactly the first token, verbatim")
		} else {
			vCover("not-found")
			vAssert(vEqStrs(rest, argv), "C01-M: a failed positional match must leave the arguments alone")
		}
	}
}
