package cli

// Common support for the cli harnesses: the declaration table, construction of the
// real application, observation of an invocation's outcome, symbolic argument
// vectors (raw and template generators).

import (
	"flag"
	"strconv"
)

// ---------------------------------------------------------------------------------
// declaration table (DESIGN.md section 3): flags -a/--aa, -b/--bb; valued -o/--oo,
// -e/--ee (multi-valued strings, -e env-capable through $VE); arguments X, Y.

const (
	oA = iota
	oB
	oO
	oE
	nOpts
)

type vOptDecl struct {
	short byte
	long  string
	flag  bool
}

var vOptTable = [nOpts]vOptDecl{
	{'a', "aa", true},
	{'b', "bb", true},
	{'o', "oo", false},
	{'e', "ee", false},
}

// vNamesOf: the name list an option of the table is declared with.
func vNamesOf(o int) string { return vShortOf(o) + " " + vOptTable[o].long }

// vUseNames swaps the table's names for unusual but legal ones (same kinds): digits as
// short names, upper-case letters, underscores and dashes inside long names.
func vUseNames(k int) {
	switch k {
	case 0:
		vOptTable = [nOpts]vOptDecl{{'a', "aa", true}, {'b', "bb", true}, {'o', "oo", false}, {'e', "ee", false}}
	case 1:
		vOptTable = [nOpts]vOptDecl{{'4', "ipv4", true}, {'k', "keepGoing", true}, {'o', "outDir", false}, {'6', "e_6-x", false}}
	case 2:
		// long names sharing a prefix (and one being a prefix of another): only exact names match
		vOptTable = [nOpts]vOptDecl{{'a', "xa", true}, {'b', "xab", true}, {'o', "xo", false}, {'e', "xe", false}}
	}
}

func vByShort(c byte) int {
	for i := 0; i < nOpts; i++ {
		if vOptTable[i].short == c {
			return i
		}
	}
	return -1
}

func vByLong(name string) int { // name without the two dashes
	for i := 0; i < nOpts; i++ {
		if vOptTable[i].long == name {
			return i
		}
	}
	return -1
}

// vSharedDefault is a default slice handed to several declarations (and to several
// applications): the library must never write through it. vResetShared re-creates it.
var vSharedDefault []string

func vResetShared() { vSharedDefault = []string{"p", "q"} }

// vDiscard swallows the library's diagnostics.
type vDiscard struct{}

func (vDiscard) Write(p []byte) (int, error) { return len(p), nil }

// vBuf collects the library's diagnostics.
type vBuf struct{ s string }

func (b *vBuf) Write(p []byte) (int, error) {
	b.s += string(p)
	return len(p), nil
}

type vExitPanic struct{ code int }

// vOutcome is everything observable about one invocation.
type vOutcome struct {
	ran        int
	err        error
	panicked   bool
	panicV     interface{}
	exited     bool
	exitCode   int
	a, b       bool
	o, e       []string
	x, y       []string
	user       [nOpts]bool // SetByUser of a, b, o, e
	userArg    [2]bool     // SetByUser of X, Y
	help       string
	argvIntact bool
}

type vAppCfg struct {
	spec      string
	envE      bool // -e declared with EnvVar VE
	envAll    bool // every option declared with an EnvVar (VA VB VO VE)
	policy    flag.ErrorHandling
	noAction  bool
	declMask  int  // bits 0..5: declare a, b, o, e, X, Y (0 = everything)
	wantHelp  bool // also capture PrintHelp output
	argEnv    bool // arguments X, Y declared with EnvVar VX, VY
	shared    bool // -o and -e (and X, Y) declared with the same non-empty default slice
	defEqEnv  bool // declared defaults equal the values the environment variables carry
	argsFirst bool // arguments are declared before the options
	version   bool // the application declares a version flag (-V --version)
	withSub   bool // the application has one sub-command (k)
}

// vCustomFlags: the two flags of the table are user-defined value types (flag.Value with
// IsBoolFlag() == true) instead of BoolOpt: everything said about flags holds for them.
var vCustomFlags bool

// vCustomVals: the two valued options are user-defined multi-valued types that do
// have an IsBoolFlag method - answering false.
var vCustomVals bool

type vUserList struct{ vals []string }

func (l *vUserList) String() string     { return "list" }
func (l *vUserList) IsBoolFlag() bool   { return false }
func (l *vUserList) Clear()             { l.vals = nil }
func (l *vUserList) Set(s string) error { l.vals = append(l.vals, s); return nil }

type vUserFlag struct{ on bool }

func (f *vUserFlag) String() string {
	if f.on {
		return "true"
	}
	return "false"
}
func (f *vUserFlag) IsBoolFlag() bool { return true }
func (f *vUserFlag) Set(s string) error {
	v, err := strconv.ParseBool(s)
	if err != nil {
		return err
	}
	f.on = v
	return nil
}

// vTableApp is a declared (not yet run) application over the declaration table.
type vTableApp struct {
	run func(full []string) vOutcome
}

// vRunTable builds the real application over the declaration table and runs it on a
// fresh argument vector.
func vRunTable(cfg vAppCfg, argv []string) vOutcome {
	return vBuildTable(cfg).run(append([]string{"app"}, argv...))
}

// vBuildTable declares the application (the environment is read now); run executes it
// on the given argument vector (element 0 is the program name) and records whether the
// library left the caller's vector alone.
func vBuildTable(cfg vAppCfg) *vTableApp {
	var out vOutcome
	stdErr = vDiscard{}
	stdOut = vDiscard{}
	exiter = func(code int) { panic(vExitPanic{code}) }
	app := App("app", "")
	app.ErrorHandling = cfg.policy
	app.Spec = cfg.spec
	envOf := func(n string) string {
		if cfg.envAll || (cfg.envE && n == "VE") {
			return n
		}
		return ""
	}
	argEnvOf := func(n string) string {
		if cfg.argEnv {
			return n
		}
		return ""
	}
	var user [nOpts]bool
	var userArg [2]bool
	mask := cfg.declMask
	if mask == 0 {
		mask = 63
	}
	var defO, defE, defX []string
	defA, defB := false, false
	if cfg.shared {
		defO, defE, defX = vSharedDefault, vSharedDefault, vSharedDefault
	}
	if cfg.defEqEnv {
		defA, defB, defO, defE = true, true, []string{"v"}, []string{"w"}
	}
	var a, b *bool
	var o, e, x, y *[]string
	declArgs := func() {
		if mask&16 != 0 {
			x = app.Strings(StringsArg{Name: "X", Value: defX, EnvVar: argEnvOf("VX"), SetByUser: &userArg[0]})
		}
		if mask&32 != 0 {
			y = app.Strings(StringsArg{Name: "Y", Value: defX, EnvVar: argEnvOf("VY"), SetByUser: &userArg[1]})
		}
	}
	if cfg.argsFirst {
		declArgs()
	}
	if mask&1 != 0 {
		if vCustomFlags {
			fa := &vUserFlag{on: defA}
			app.Var(VarOpt{Name: vNamesOf(oA), Value: fa, EnvVar: envOf("VA"), SetByUser: &user[oA]})
			a = &fa.on
		} else {
			a = app.Bool(BoolOpt{Name: vNamesOf(oA), Value: defA, EnvVar: envOf("VA"), SetByUser: &user[oA]})
		}
	}
	if mask&2 != 0 {
		if vCustomFlags {
			fb := &vUserFlag{on: defB}
			app.Var(VarOpt{Name: vNamesOf(oB), Value: fb, EnvVar: envOf("VB"), SetByUser: &user[oB]})
			b = &fb.on
		} else {
			b = app.Bool(BoolOpt{Name: vNamesOf(oB), Value: defB, EnvVar: envOf("VB"), SetByUser: &user[oB]})
		}
	}
	if mask&4 != 0 {
		if vCustomVals {
			lo := &vUserList{vals: append([]string(nil), defO...)}
			app.Var(VarOpt{Name: vNamesOf(oO), Value: lo, EnvVar: envOf("VO"), SetByUser: &user[oO]})
			o = &lo.vals
		} else {
			o = app.Strings(StringsOpt{Name: vNamesOf(oO), Value: defO, EnvVar: envOf("VO"), SetByUser: &user[oO]})
		}
	}
	if mask&8 != 0 {
		if vCustomVals {
			le := &vUserList{vals: append([]string(nil), defE...)}
			app.Var(VarOpt{Name: vNamesOf(oE), Value: le, EnvVar: envOf("VE"), SetByUser: &user[oE]})
			e = &le.vals
		} else {
			e = app.Strings(StringsOpt{Name: vNamesOf(oE), Value: defE, EnvVar: envOf("VE"), SetByUser: &user[oE]})
		}
	}
	if !cfg.argsFirst {
		declArgs()
	}
	if cfg.version {
		app.Version("V version", "VERSION-9")
	}
	if cfg.withSub {
		app.Command("k", "desc-k", func(c *Cmd) { c.Action = func() {} })
	}
	cp := func(p *[]string) []string {
		if p == nil {
			return nil
		}
		return append([]string(nil), *p...)
	}
	if !cfg.noAction {
		app.Action = func() {
			out.ran++
			if a != nil {
				out.a = *a
			}
			if b != nil {
				out.b = *b
			}
			out.o, out.e, out.x, out.y = cp(o), cp(e), cp(x), cp(y)
			out.user = user
			out.userArg = userArg
		}
	}
	if cfg.wantHelp {
		buf := &vBuf{}
		stdErr = buf
		func() {
			defer func() { recover() }()
			app.doInit()
			app.PrintHelp()
		}()
		out.help = buf.s
		stdErr = vDiscard{}
	}
	return &vTableApp{run: func(full []string) vOutcome {
		out.ran, out.err, out.panicked, out.exited = 0, nil, false, false // (the same object may be run again)
		saved := append([]string(nil), full...)
		stdErr = vDiscard{}
		stdOut = vDiscard{}
		exiter = func(code int) { panic(vExitPanic{code}) }
		func() {
			defer func() {
				if r := recover(); r != nil {
					if ep, ok := r.(vExitPanic); ok {
						out.exited, out.exitCode = true, ep.code
						return
					}
					out.panicked, out.panicV = true, r
				}
			}()
			out.err = app.Run(full)
		}()
		out.argvIntact = vEqStrs(full, saved)
		return out
	}}
}

func vEqStrs(a, b []string) bool {
	if len(a) != len(b) {
		return false
	}
	for i := range a {
		if a[i] != b[i] {
			return false
		}
	}
	return true
}

func vSameOutcome(p, q vOutcome) bool {
	if (p.ran > 0) != (q.ran > 0) || p.ran != q.ran {
		return false
	}
	if (p.err == nil) != (q.err == nil) || p.panicked != q.panicked || p.exited != q.exited {
		return false
	}
	if p.ran == 0 {
		return true
	}
	if p.a != q.a || p.b != q.b {
		return false
	}
	return vEqStrs(p.o, q.o) && vEqStrs(p.e, q.e) && vEqStrs(p.x, q.x) && vEqStrs(p.y, q.y)
}

func vObserveOutcome(tag string, p vOutcome) {
	vObserve(tag+".ran", p.ran)
	vObserve(tag+".err", p.err != nil)
	if p.ran > 0 {
		vObserve(tag+".a", p.a)
		vObserve(tag+".b", p.b)
		vObserve(tag+".o", p.o)
		vObserve(tag+".e", p.e)
		vObserve(tag+".x", p.x)
		vObserve(tag+".y", p.y)
	}
}

// ---------------------------------------------------------------------------------
// symbolic argument vectors

// vRawArgv: K <= maxK tokens of <= maxL arbitrary bytes.
func vRawArgv(maxK, maxL int) []string {
	k := vChoice("K", maxK+1)
	var argv []string
	for i := 0; i < k; i++ {
		argv = append(argv, vNondetString("tok", maxL))
	}
	return argv
}

func vIsHelpTok(t string) bool { return t == "-h" || t == "--help" }

func vNoHelp(argv []string) {
	for _, t := range argv {
		vAssume(!vIsHelpTok(t))
	}
}

// template shapes
const (
	shPos = iota
	shDash
	shDD
	shFlagShort    // -a
	shFlagLong     // --aa
	shFlagShortEq  // -a=p
	shFlagLongEq   // --aa=p
	shValSep       // -o p
	shValAtt       // -op
	shValEq        // -o=p
	shValLongSep   // --oo p
	shValLongEq    // --oo=p
	shFold2        // -ab / -ba
	shFoldVal      // -ao p  (fold ending in a valued option, separate value)
	shFoldValAtt   // -aop
	shUndeclShort  // -z
	shUndeclLong   // --zz
	shValMissing   // -o at the very end / followed by nothing usable
	shLongEqEmpty  // --oo=
	shUndeclEq     // -z=p
	shFold3        // -aab: three folded flags
	shLongMissing  // --oo at the very end / followed by nothing usable
	shPosEmpty     // an empty positional token
	shFoldDashLong // -a-bb: a flag glued to what would be a long option once the flag is removed
	shHelp         // -h (only meaningful where help tokens are allowed, i.e. after `--`)
	nShapes
)

// vPayload returns a symbolic payload of 1..lp bytes that does not start with '-'.
func vPayload(lp int) string {
	p := vNondetString("payload", lp)
	vAssume(len(p) > 0)
	vAssume(p[0] != '-')
	return p
}

// vTemplateArgv builds up to maxItems items, each one of the documented shapes.
// Returns the argv and, per token, the index of the item it came from.
func vTemplateArgv(maxItems, lp int, shapes []int) []string {
	n := vChoice("items", maxItems+1)
	var argv []string
	for i := 0; i < n; i++ {
		si := vChoice("shape", len(shapes))
		argv = append(argv, vShapeTokens(shapes[si], lp)...)
	}
	return argv
}

func vFlagSel() int         { return oA + vChoice("flag", 2) }
func vValSel() int          { return oO + vChoice("val", 2) }
func vShortOf(o int) string { return string([]byte{vOptTable[o].short}) }

func vShapeTokens(sh int, lp int) []string {
	switch sh {
	case shPos:
		return []string{vPayload(lp)}
	case shDash:
		return []string{"-"}
	case shDD:
		return []string{"--"}
	case shFlagShort:
		return []string{"-" + vShortOf(vFlagSel())}
	case shFlagLong:
		return []string{"--" + vOptTable[vFlagSel()].long}
	case shFlagShortEq:
		f := vFlagSel()
		return []string{"-" + vShortOf(f) + "=" + vNondetString("payload", lp)}
	case shFlagLongEq:
		f := vFlagSel()
		return []string{"--" + vOptTable[f].long + "=" + vNondetString("payload", lp)}
	case shValSep:
		return []string{"-" + vShortOf(vValSel()), vPayload(lp)}
	case shValAtt:
		v := vValSel()
		p := vNondetString("payload", lp)
		vAssume(len(p) > 0)
		vAssume(p[0] != '=')
		return []string{"-" + vShortOf(v) + p}
	case shValEq:
		v := vValSel()
		p := vNondetString("payload", lp)
		return []string{"-" + vShortOf(v) + "=" + p}
	case shValLongSep:
		return []string{"--" + vOptTable[vValSel()].long, vPayload(lp)}
	case shValLongEq:
		return []string{"--" + vOptTable[vValSel()].long + "=" + vNondetString("payload", lp)}
	case shFold2:
		f := vFlagSel()
		g := oA + oB - f
		if vNondetBool("same") {
			g = f
		}
		return []string{"-" + vShortOf(f) + vShortOf(g)}
	case shFoldVal:
		return []string{"-" + vShortOf(vFlagSel()) + vShortOf(vValSel()), vPayload(lp)}
	case shFoldValAtt:
		p := vNondetString("payload", lp)
		vAssume(len(p) > 0)
		return []string{"-" + vShortOf(vFlagSel()) + vShortOf(vValSel()) + p}
	case shUndeclShort:
		return []string{"-z"}
	case shUndeclLong:
		return []string{"--zz"}
	case shValMissing:
		return []string{"-" + vShortOf(vValSel())}
	case shLongEqEmpty:
		return []string{"--" + vOptTable[vValSel()].long + "="}
	case shUndeclEq:
		return []string{"-z=" + vNondetString("payload", lp)}
	case shFold3:
		f := vFlagSel()
		g := vFlagSel()
		return []string{"-" + vShortOf(f) + vShortOf(f) + vShortOf(g)}
	case shLongMissing:
		return []string{"--" + vOptTable[vValSel()].long}
	case shPosEmpty:
		return []string{""}
	case shHelp:
		return []string{"-h"}
	case shFoldDashLong:
		f := vFlagSel()
		g := vChoice("anyopt", nOpts)
		return []string{"-" + vShortOf(f) + "-" + vOptTable[g].long}
	}
	return nil
}

var vAllShapes = []int{shPos, shDash, shDD, shFlagShort, shFlagLong, shFlagShortEq, shFlagLongEq, shValSep, shValAtt, shValEq,
	shValLongSep, shValLongEq, shFold2, shFoldVal, shFoldValAtt, shUndeclShort, shUndeclLong, shValMissing, shLongEqEmpty, shUndeclEq,
	shFold3, shLongMissing, shPosEmpty, shFoldDashLong}
