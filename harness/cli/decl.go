package cli

// C18: invalid declarations fail fast. A sequence of option / argument declarations
// with symbolic names; the oracle is the statement: names split on blanks, one letter
// -> short, longer -> long; a name used twice (anywhere, in either order, also inside
// one list) panics; an argument name must be an upper-case identifier and unique.

import "flag"

func init() {
	vRegister("H_decl", H_decl)
}

func vIsBlank(c byte) bool {
	return c == ' ' || c == '\t' || c == '\n' || c == '\v' || c == '\f' || c == '\r'
}

func vSplitBlanks(s string) []string {
	var out []string
	start := -1
	for i := 0; i < len(s); i++ {
		if vIsBlank(s[i]) {
			if start >= 0 {
				out = append(out, s[start:i])
				start = -1
			}
		} else if start < 0 {
			start = i
		}
	}
	if start >= 0 {
		out = append(out, s[start:])
	}
	return out
}

func vDashed(n string) string {
	if len(n) == 1 {
		return "-" + n
	}
	return "--" + n
}

func vValidArgName(n string) bool {
	if len(n) == 0 || n == "OPTIONS" {
		return false
	}
	if !(n[0] >= 'A' && n[0] <= 'Z') {
		return false
	}
	for i := 1; i < len(n); i++ {
		c := n[i]
		if !(c >= 'A' && c <= 'Z' || c >= '0' && c <= '9' || c == '_') {
			return false
		}
	}
	return true
}

func H_decl() {
	nd := vParamInt("ndecl")
	optLen := vParamInt("optLen")
	argLen := vParamInt("argLen")
	app := App("app", "")
	// the declaration checks do not depend on the error policy of the application
	stdErr = vDiscard{}
	switch vParamInt("policy") {
	case 0:
		app.ErrorHandling = flag.ContinueOnError
	case 2:
		app.ErrorHandling = flag.PanicOnError
	}
	type decl struct {
		isOpt  bool
		name   string
		dashed []string
	}
	var seenOpt []string
	var seenArg []string
	var sharedDest string
	var decls []decl
	pattern := vParamString("pattern") // e.g. "oo", "oa": option / argument per position
	n := 1 + vChoice("n", nd)
	for i := 0; i < n; i++ {
		isVersion := pattern[i] == 'v' // Version(name, ...) declares a flag too
		isOpt := pattern[i] == 'o' || isVersion
		var name string
		if isOpt && vParamInt("names") == 1 {
			// names outside ASCII (concrete): a name of one multi-byte character is not "one letter"
			name = []string{"\u00e9", "e \u00e9", "\u65e5", "\u00fc uu", "\u00e9 \u00e9", "x \u00e9\u00e9"}[vChoice("uname", 6)]
		} else if isOpt {
			name = vAsciiString("optname", optLen)
		} else {
			name = vAsciiString("argname", argLen)
			for k := 0; k < len(name); k++ {
				vAssume(!vIsBlank(name[k])) // C18: argument names are strings without blanks
			}
		}
		if isVersion {
			vAssume(len(vSplitBlanks(name)) > 0) // Version needs a name
		}
		// oracle: must this declaration panic?
		mustPanic := false
		var dashed []string
		if isOpt {
			for _, nm := range vSplitBlanks(name) {
				d := vDashed(nm)
				for _, s := range seenOpt {
					if s == d {
						mustPanic = true
					}
				}
				for _, s := range dashed {
					if s == d {
						mustPanic = true
					}
				}
				dashed = append(dashed, d)
			}
		} else {
			if !vValidArgName(name) {
				mustPanic = true
			}
			for _, s := range seenArg {
				if s == name {
					mustPanic = true
				}
			}
		}
		var rec interface{}
		kind := (i + len(pattern)) % 3 // which public entry point declares it
		func() {
			defer func() { rec = recover() }()
			if isVersion {
				app.Version(name, "1.0")
			} else if isOpt {
				switch kind {
				case 0:
					app.Bool(BoolOpt{Name: name})
				case 1:
					app.String(StringOpt{Name: name})
				case 2:
					app.Strings(StringsOpt{Name: name})
				}
			} else {
				if vParamInt("names") == 2 {
					// the XxxArgPtr flavour with one destination variable for every declaration
					app.StringArgPtr(&sharedDest, name, "", "")
				} else {
					switch kind {
					case 0:
						app.Bool(BoolArg{Name: name})
					case 1:
						app.String(StringArg{Name: name})
					case 2:
						app.Strings(StringsArg{Name: name})
					}
				}
			}
		}()
		vObserve("panicked", rec != nil)
		if mustPanic {
			vCover("must-panic")
			vAssert(rec != nil, "C18: a conflicting or invalid declaration was silently accepted")
			vAssert(!vIsRuntimeError(rec), "C18: the declaration died with a runtime error instead of a diagnostic")
			return
		}
		vAssert(rec == nil, "C18: a valid declaration panicked")
		vCover("accepted")
		if isOpt {
			seenOpt = append(seenOpt, dashed...)
		} else {
			seenArg = append(seenArg, name)
		}
		decls = append(decls, decl{isOpt, name, dashed})
	}
	// every listed name addresses its own declaration's variable
	oi, ai := 0, 0
	for _, d := range decls {
		if d.isOpt {
			con := app.options[oi]
			oi++
			vAssert(len(con.Names) == len(d.dashed), "C18: wrong number of names recorded")
			for k, nm := range d.dashed {
				vAssert(con.Names[k] == nm, "C18: one-letter names must become short options and longer names long options")
				vAssert(app.optionsIdx[nm] == con, "C18: a listed name does not address its own option")
			}
		} else {
			con := app.args[ai]
			ai++
			vAssert(con.Name == d.name && app.argsIdx[d.name] == con, "C18: an argument name does not address its own argument")
		}
	}
	vAssert(oi == len(app.options) && ai == len(app.args), "C18: undeclared containers were registered")
}
