package cli

// Command trees: routing (C04), error policy (C07), help / version (C14).
// The oracle is the reference router of DESIGN.md D.4: split the remaining tokens at
// the first token naming a direct child, recurse; per-level verdicts and bindings come
// from running the real single-level application of that level on its own tokens.

import (
	"flag"
	"strings"
)

func init() {
	vRegister("H_route", H_route)
	vRegister("H_policy", H_policy)
	vRegister("H_help", H_help)
}

type vLvl struct {
	names    string // aliases, blank separated
	spec     string
	action   bool
	intOpt   bool // declares IntOpt -n
	ownHelp  bool // declares its own option named "h help"
	longDesc string
	noDesc   bool // declared with an empty short description
	kids     []*vLvl
	id       int
}

func vFirstName(names string) string {
	for i := 0; i < len(names); i++ {
		if names[i] == ' ' {
			return names[:i]
		}
	}
	return names
}

func vAliases(names string) []string {
	var out []string
	start := 0
	for i := 0; i <= len(names); i++ {
		if i == len(names) || names[i] == ' ' {
			if i > start {
				out = append(out, names[start:i])
			}
			start = i + 1
		}
	}
	return out
}

// vTrees: depth <= 3, fan-out <= 2, aliases that are prefixes of each other, levels
// with and without parameters, action-less commands, a version flag on tree 5.
// vVersionString is what the version flag prints; tree 11 declares an empty one (a
// build variable the linker did not fill in) - the flag still short-circuits.
var vVersionString = "VERSION-1.2.3"

func vTree(t int) (root *vLvl, version bool) {
	vVersionString = "VERSION-1.2.3"
	switch t {
	case 0:
		root = &vLvl{names: "app", spec: "[-f] [-n] [X]", action: true, intOpt: true}
	case 1:
		root = &vLvl{names: "app", spec: "", action: true, kids: []*vLvl{
			{names: "c cc", spec: "[-f] [X]", action: true, longDesc: "LONG-C", kids: []*vLvl{
				{names: "d", spec: "-f X...", action: true}}},
			{names: "e", spec: "", action: false, kids: []*vLvl{
				{names: "g gg", spec: "[OPTIONS]", action: true}}},
		}}
	case 2:
		root = &vLvl{names: "app", spec: "[-f]", action: true, kids: []*vLvl{
			{names: "a ab", spec: "[X]", action: true},
			{names: "abc b", spec: "[-f] X", action: true},
		}}
	case 3:
		root = &vLvl{names: "app", spec: "[-f] [X]", action: true, longDesc: "LONG-ROOT", noDesc: true, kids: []*vLvl{
			{names: "c", spec: "", action: true}}}
	case 4:
		root = &vLvl{names: "app", spec: "", action: false, kids: []*vLvl{
			{names: "c", spec: "[-f]", action: true, kids: []*vLvl{
				{names: "d dd", spec: "[X]", action: false, kids: []*vLvl{
					{names: "g", spec: "[-f] [X]", action: true, longDesc: "LONG-G", noDesc: true}}}}}}}
	case 5:
		root = &vLvl{names: "app", spec: "[-f] [X]", action: true, kids: []*vLvl{
			{names: "c cc", spec: "[X]", action: true}}}
		version = true
	case 7:
		// a sub-command alias may look like an option: routing is by token equality
		root = &vLvl{names: "app", spec: "[-f]", action: true, kids: []*vLvl{
			{names: "ls -l --list", spec: "[X]", action: true},
			{names: "rm", spec: "[-f] X", action: true}}}
	case 11:
		// tree 5 with an empty version string
		root, version = vTree(5)
		vVersionString = ""
		return
	case 9:
		// a command name may contain a comma: names are separated by blanks only
		root = &vLvl{names: "app", spec: "[-f]", action: true, kids: []*vLvl{
			{names: "a,b c", spec: "[X]", action: true}}}
	case 10:
		// specs made of blanks only: the level takes no token of its own
		root = &vLvl{names: "app", spec: " ", action: true, kids: []*vLvl{
			{names: "c", spec: "\t ", action: true, kids: []*vLvl{
				{names: "d", spec: "[X]", action: true}}}}}
	case 8:
		// a sub-command declares an option spelled like the help flag, its parent does not
		root = &vLvl{names: "app", spec: "[-f]", action: true, kids: []*vLvl{
			{names: "c", spec: "[-h] [X]", action: true, ownHelp: true, kids: []*vLvl{
				{names: "d", spec: "[X]", action: true}}}}}
	case 6:
		// a command may declare an option spelled like the help flag: help still wins
		root = &vLvl{names: "app", spec: "[-h] [X]", action: true, ownHelp: true, kids: []*vLvl{
			{names: "c", spec: "[-f] [X]", action: true}}}
	}
	n := 0
	var number func(l *vLvl)
	number = func(l *vLvl) {
		l.id = n
		n++
		for _, k := range l.kids {
			number(k)
		}
	}
	number(root)
	return
}

// vRec records what happened at one level.
type vRec struct {
	f    bool
	n    int
	x    []string
	seen bool
}

type vTreeRun struct {
	log      []int // hook log: 100+id Before, 200+id Action, 300+id After
	recs     map[int]*vRec
	err      error
	exited   bool
	exitCode int
	exits    int
	panicked bool
	panicV   interface{}
	out      string
	anyF     bool // SetByUser shared by every level's -f
	anyFAct  bool // its value when the Action ran
}

// vSubPolicy: when set, every sub-command gets this error policy in its initializer
// (the root keeps the one under test): the rejecting command's own policy is followed.
var vSubPolicy flag.ErrorHandling
var vSubPolicySet bool

// vLatePolicy: the root's policy is assigned after the sub-commands were declared; a
// command follows the policy it was given (copied from its parent) at declaration.
var vLatePolicy bool

// vTreeEnv: every level's -f is backed by the environment variable TF (set or not by
// the harness): routing, policies and help must not depend on where a value comes from.
var vTreeEnv bool

func vTreeEnvSetup() {
	vTreeEnv = vParamInt("env") == 1
	if vTreeEnv && vNondetBool("env.TF") {
		vSetenv("TF", "true")
	}
}

func vDeclare(cmd *Cmd, l *vLvl, run *vTreeRun) {
	cmd.Spec = l.spec
	cmd.LongDesc = l.longDesc
	fenv := ""
	if vTreeEnv {
		fenv = "TF"
	}
	// one SetByUser variable shared by the -f of every level: true iff some level's -f was written
	f := cmd.Bool(BoolOpt{Name: "f ff", EnvVar: fenv, SetByUser: &run.anyF})
	if l.ownHelp {
		cmd.Bool(BoolOpt{Name: "h help"})
	}
	var n *int
	if l.intOpt {
		n = cmd.Int(IntOpt{Name: "n"})
	}
	x := cmd.Strings(StringsArg{Name: "X"})
	id := l.id
	cmd.Before = func() { run.log = append(run.log, 100+id) }
	cmd.After = func() { run.log = append(run.log, 300+id) }
	if l.action {
		cmd.Action = func() {
			run.log = append(run.log, 200+id)
			run.anyFAct = run.anyF
		}
	}
	// values are read at the moment any hook of a deeper or equal level runs: record
	// lazily through a closure the harness calls after Run
	run.recs[id] = &vRec{}
	rec := run.recs[id]
	read := func() {
		rec.f = *f
		if n != nil {
			rec.n = *n
		}
		rec.x = append([]string(nil), *x...)
		rec.seen = true
	}
	oldB := cmd.Before
	cmd.Before = func() { read(); oldB() }
	for _, k := range l.kids {
		kk := k
		desc := "desc-" + vFirstName(kk.names)
		if kk.noDesc {
			desc = ""
		}
		cmd.Command(kk.names, desc, func(c *Cmd) {
			if vSubPolicySet {
				c.ErrorHandling = vSubPolicy
			}
			vDeclare(c, kk, run)
		})
	}
}

func vRunTree(root *vLvl, version bool, policy flag.ErrorHandling, argv []string, onlyLevel *vLvl) *vTreeRun {
	run := &vTreeRun{recs: map[int]*vRec{}}
	buf := &vBuf{}
	stdErr = buf
	stdOut = buf
	exiter = func(code int) {
		run.exits++
		run.exitCode = code
		panic(vExitPanic{code})
	}
	rootDesc := "desc-app"
	if root != nil && root.noDesc {
		rootDesc = ""
	}
	app := App("app", rootDesc)
	app.ErrorHandling = policy
	if vLatePolicy {
		// the sub-commands are declared while the root still has ContinueOnError (they copy
		// it); the root's policy is assigned afterwards
		app.ErrorHandling = flag.ContinueOnError
	}
	if version && onlyLevel == nil {
		app.Version("v version", vVersionString)
	}
	if onlyLevel != nil {
		// the single-level application of one level: same declarations and spec, no children
		single := &vLvl{names: "app", spec: onlyLevel.spec, action: true, intOpt: onlyLevel.intOpt, ownHelp: onlyLevel.ownHelp, id: onlyLevel.id}
		vDeclare(app.Cmd, single, run)
	} else {
		vDeclare(app.Cmd, root, run)
	}
	if vLatePolicy {
		app.ErrorHandling = policy
	}
	func() {
		defer func() {
			if r := recover(); r != nil {
				if _, ok := r.(vExitPanic); ok {
					run.exited = true
					return
				}
				run.panicked, run.panicV = true, r
			}
		}()
		run.err = app.Run(append([]string{"app"}, argv...))
	}()
	run.out = buf.s
	return run
}

// ---------------------------------------------------------------------------------
// reference router

const (
	rkRun = iota
	rkNoAction
	rkReject
	rkHelp
	rkVersion
)

type vExpect struct {
	kind      int
	path      string // full command path of the command concerned
	cmd       *vLvl
	levels    []*vLvl    // levels validated, root first (rkRun / rkNoAction / rkReject: up to the rejecting one)
	tokens    [][]string // their own tokens
	unclaimed bool
}

func vChildNamed(l *vLvl, tok string) *vLvl {
	for _, k := range l.kids {
		for _, a := range vAliases(k.names) {
			if a == tok {
				return k
			}
		}
	}
	return nil
}

func vRefTree(l *vLvl, path string, args []string, root, version bool, exp *vExpect) {
	if root && version && len(args) > 0 && (args[0] == "-v" || args[0] == "--version") {
		exp.kind, exp.path, exp.cmd = rkVersion, path, l
		return
	}
	// first help token before the first `--` of the remaining arguments
	h := -1
	ddBefore := false
	ddAt := -1
	for i, a := range args {
		if a == "--" {
			ddBefore = true
			ddAt = i
			break
		}
		if vIsHelpTok(a) {
			h = i
			break
		}
	}
	// first token naming a direct child
	n := len(args)
	var kid *vLvl
	for i, a := range args {
		if k := vChildNamed(l, a); k != nil {
			n, kid = i, k
			break
		}
	}
	if h >= 0 && h < n {
		exp.kind, exp.path, exp.cmd = rkHelp, path, l
		return
	}
	if h >= 0 {
		vRefTree(kid, path+" "+vFirstName(kid.names), args[n+1:], false, false, exp)
		return
	}
	if ddBefore && ddAt < n {
		// a `--` in this level's own arguments hides help tokens further right from this
		// level's scan: unclaimed when such a token belongs to a deeper level (a `--` that
		// belongs to a deeper level itself is that level's business)
		for i := n + 1; i < len(args); i++ {
			if vIsHelpTok(args[i]) {
				exp.unclaimed = true
			}
		}
	}
	exp.levels = append(exp.levels, l)
	exp.tokens = append(exp.tokens, args[:n])
	single := vRunTree(nil, false, flag.ContinueOnError, args[:n], l)
	levelRejects := single.err != nil || single.panicked
	if l.spec != "" && vTrim(l.spec) == "" {
		// a spec made of blanks is a spec (it is not "absent", C16): it accepts no token,
		// except the `--` that is bound to nothing (C09)
		levelRejects = !(n == 0 || (n == 1 && args[0] == "--"))
	}
	if levelRejects {
		exp.kind, exp.path, exp.cmd = rkReject, path, l
		return
	}
	if n == len(args) {
		exp.path, exp.cmd = path, l
		if l.action {
			exp.kind = rkRun
		} else {
			exp.kind = rkNoAction
		}
		return
	}
	vRefTree(kid, path+" "+vFirstName(kid.names), args[n+1:], false, false, exp)
}

// expected hook log of a successful run along levels
func vExpectedLog(levels []*vLvl) []int {
	var log []int
	for _, l := range levels {
		log = append(log, 100+l.id)
	}
	log = append(log, 200+levels[len(levels)-1].id)
	for i := len(levels) - 1; i >= 0; i-- {
		log = append(log, 300+levels[i].id)
	}
	return log
}

func vEqInts(a, b []int) bool {
	if len(a) != len(b) {
		return false
	}
	for i := range a {
		if a[i] != b[i] {
			return false
		}
	}
	return true
}

// vFind returns the first index of needle in hay, or -1.
func vFind(hay, needle string) int {
	for i := 0; i+len(needle) <= len(hay); i++ {
		if hay[i:i+len(needle)] == needle {
			return i
		}
	}
	return -1
}

func vTrim(s string) string {
	i, j := 0, len(s)
	for i < j && (s[i] == ' ' || s[i] == '\t') {
		i++
	}
	for j > i && (s[j-1] == ' ' || s[j-1] == '\t') {
		j--
	}
	return s[i:j]
}

// vUsageLine is the usage line the help of command l must show.
func vUsageLine(l *vLvl, path string) string {
	spec := vTrim(l.spec)
	if l.spec == "" {
		// C16: a missing spec means [OPTIONS] ARG...
		spec = "[OPTIONS] X"
	}
	s := "\nUsage: " + path
	if spec != "" {
		s += " " + spec
	}
	if len(l.kids) > 0 {
		s += " COMMAND [arg...]"
	}
	return s + "\n\n"
}

func vTreeArgv() []string {
	argv := vRawArgv(vParamInt("K"), vParamInt("L"))
	return argv
}

// vNamedArgv: longer command lines over a small alphabet - every alias of the tree, the
// flag in both spellings, a positional, `--` and an undeclared option - so that the
// deepest commands are reached with arguments of their own.
func vNamedArgv(root *vLvl, maxK int) []string {
	names := []string{"-f", "--ff", "x", "--", "-z"}
	var walk func(x *vLvl)
	walk = func(x *vLvl) {
		for _, k := range x.kids {
			names = append(names, vAliases(k.names)...)
			walk(k)
		}
	}
	walk(root)
	k := vChoice("K", maxK+1)
	var argv []string
	for i := 0; i < k; i++ {
		c := vChoice("tok", len(names))
		if names[c] == "x" {
			argv = append(argv, vNondetString("pos", 1)) // a positional of one arbitrary byte (or empty)
		} else {
			argv = append(argv, names[c])
		}
	}
	return argv
}

// vTreeArgvFor: raw byte tokens, or (param named=1) the small-alphabet generator.
func vTreeArgvFor(root *vLvl) []string {
	if vParamInt("named") == 1 {
		return vNamedArgv(root, vParamInt("K"))
	}
	return vTreeArgv()
}

// vHelpTemplateArgv: tokens from {help tokens, --, aliases, version names, raw}
func vHelpArgv(root *vLvl, maxK, l int) []string {
	names := []string{"-h", "--help", "--", "-v", "--version", "-f"}
	var walk func(x *vLvl)
	walk = func(x *vLvl) {
		for _, k := range x.kids {
			names = append(names, vAliases(k.names)...)
			walk(k)
		}
	}
	walk(root)
	k := vChoice("K", maxK+1)
	var argv []string
	for i := 0; i < k; i++ {
		c := vChoice("tok", len(names)+1)
		if c == len(names) {
			argv = append(argv, vNondetString("raw", l))
		} else {
			argv = append(argv, names[c])
		}
	}
	return argv
}

// ---------------------------------------------------------------------------------
// C04

func H_route() {
	vTreeEnvSetup()
	root, version := vTree(vParamInt("tree"))
	argv := vTreeArgvFor(root)
	vNoHelp(argv)
	if version {
		vAssume(len(argv) == 0 || (argv[0] != "-v" && argv[0] != "--version"))
	}
	exp := &vExpect{}
	vRefTree(root, "app", argv, true, version, exp)
	run := vRunTree(root, version, flag.ContinueOnError, argv, nil)
	vObserve("kind", exp.kind)
	vObserve("log", run.log)
	vObserve("err", run.err != nil)
	vAssert(!run.panicked, "Run panicked")
	vAssert(!run.exited, "Run exited under ContinueOnError")
	switch exp.kind {
	case rkRun:
		vCover("run")
		vAssert(run.err == nil, "C04: addressed command is valid but Run returned an error")
		vAssert(vEqInts(run.log, vExpectedLog(exp.levels)), "C04: not exactly the addressed Action (with its interceptors) ran")
		// every level's variables hold what the single-level application binds
		wantAnyF := false
		for i, l := range exp.levels {
			single := vRunTree(nil, false, flag.ContinueOnError, exp.tokens[i], l)
			wantAnyF = wantAnyF || single.anyF
			defer func() {
				vAssert(run.anyFAct == wantAnyF && run.anyF == wantAnyF, "C15: a SetByUser variable shared by the levels' -f options is not true exactly when some level's command line wrote -f")
			}()
			want, got := single.recs[l.id], run.recs[l.id]
			vAssert(got.seen && want.seen, "C04: a level on the path was not initialised")
			vAssert(got.f == want.f && got.n == want.n && vEqStrs(got.x, want.x), "C04: a level's variables differ from its own single-level parse")
		}
	case rkNoAction:
		vCover("no-action")
		vAssert(len(run.log) == 0, "C04: something ran although the addressed command has no Action")
	case rkReject:
		vCover("reject")
		vAssert(run.err != nil, "C04: a level rejects its tokens but Run returned nil")
		vAssert(len(run.log) == 0, "C04: something ran although a level rejected its tokens")
	}
}

// ---------------------------------------------------------------------------------
// C07

func H_policy() {
	vTreeEnvSetup()
	root, version := vTree(vParamInt("tree"))
	argv := vTreeArgvFor(root)
	vNoHelp(argv)
	if version {
		vAssume(len(argv) == 0 || (argv[0] != "-v" && argv[0] != "--version"))
	}
	exp := &vExpect{}
	vRefTree(root, "app", argv, true, version, exp)
	vAssume(exp.kind != rkNoAction)
	vSubPolicySet = false
	vLatePolicy = false
	if vParamInt("subpol") >= 1 && exp.kind == rkReject && exp.cmd != root {
		// sub-commands configured with ContinueOnError under a root with another policy
		// (subpol 1: in their initializer; subpol 2: copied at declaration from a root whose
		// policy is changed afterwards): a rejection by a sub-command returns the error and
		// neither exits nor panics
		if vParamInt("subpol") == 2 {
			vLatePolicy = true
			defer func() { vLatePolicy = false }()
		} else {
			vSubPolicy, vSubPolicySet = flag.ContinueOnError, true
		}
		for _, pol := range []flag.ErrorHandling{flag.ExitOnError, flag.PanicOnError} {
			r := vRunTree(root, version, pol, argv, nil)
			vAssert(len(r.log) == 0, "C07: an Action or interceptor ran on a rejected invocation")
			vAssert(r.err != nil && !r.exited && !r.panicked && r.exits == 0, "C07: the rejecting command is configured with ContinueOnError: Run must return the error and neither exit nor panic")
		}
		vSubPolicySet = false
		vCover("sub-policy")
		return
	}
	rc := vRunTree(root, version, flag.ContinueOnError, argv, nil)
	re := vRunTree(root, version, flag.ExitOnError, argv, nil)
	rp := vRunTree(root, version, flag.PanicOnError, argv, nil)
	vObserve("kind", exp.kind)
	vObserve("c.err", rc.err != nil)
	vObserve("e.exit", re.exitCode)
	vObserve("p.panicked", rp.panicked)
	rejected := exp.kind == rkReject
	if !rejected {
		vCover("accepted")
		for _, r := range []*vTreeRun{rc, re, rp} {
			vAssert(r.err == nil && !r.exited && !r.panicked && r.exits == 0, "C07: an accepted invocation returned an error, exited or panicked")
			vAssert(len(r.log) > 0, "C07: accepted but nothing ran")
		}
		return
	}
	vCover("rejected")
	for _, r := range []*vTreeRun{rc, re, rp} {
		vAssert(len(r.log) == 0, "C07: an Action or interceptor ran on a rejected invocation")
		vAssert(strings.HasPrefix(r.out, "Error: "), "C07: the error is not written first to the error stream")
		vAssert(strings.Contains(r.out, vUsageLine(exp.cmd, exp.path)), "C07: the usage of the rejecting command is not written to the error stream")
	}
	vAssert(rc.err != nil && !rc.exited && !rc.panicked && rc.exits == 0, "C07: ContinueOnError must return a non-nil error and nothing else")
	vAssert(re.exited && re.exits == 1 && re.exitCode == 2 && !re.panicked, "C07: ExitOnError must exit once with status 2")
	vAssert(rp.panicked && !rp.exited && rp.exits == 0, "C07: PanicOnError must panic")
	perr, isErr := rp.panicV.(error)
	vAssert(isErr && perr != nil, "C07: PanicOnError must panic with the error")
}

// ---------------------------------------------------------------------------------
// C14

func H_help() {
	vTreeEnvSetup()
	root, version := vTree(vParamInt("tree"))
	argv := vHelpArgv(root, vParamInt("K"), vParamInt("L"))
	pol := vChoice("policy", 3)
	policy := []flag.ErrorHandling{flag.ContinueOnError, flag.ExitOnError, flag.PanicOnError}[pol]
	exp := &vExpect{}
	vRefTree(root, "app", argv, true, version, exp)
	vAssume(!exp.unclaimed)
	if exp.kind != rkHelp && exp.kind != rkVersion {
		// no help request: either there is no help token, or it follows a `--` within the same
		// command's own arguments and is ordinary data - then routing applies (C04's oracle)
		hasHelpTok := false
		for _, a := range argv {
			if vIsHelpTok(a) {
				hasHelpTok = true
			}
		}
		vAssume(hasHelpTok && pol == 0)
		vAssume(exp.kind != rkNoAction)
		run := vRunTree(root, version, flag.ContinueOnError, argv, nil)
		vObserve("kind", exp.kind)
		vObserve("log", run.log)
		vAssert(!run.panicked && !run.exited, "C14: a help token that is data made Run panic or exit")
		if exp.kind == rkRun {
			vCover("help-token-is-data-run")
			vAssert(run.err == nil && vEqInts(run.log, vExpectedLog(exp.levels)), "C14: a help token after `--` in the command's own arguments must be ordinary data (the command runs)")
			last := exp.levels[len(exp.levels)-1]
			single := vRunTree(nil, false, flag.ContinueOnError, exp.tokens[len(exp.tokens)-1], last)
			vAssert(vEqStrs(run.recs[last.id].x, single.recs[last.id].x), "C14: tokens after `--` are bound verbatim, help tokens included")
		} else {
			vCover("help-token-is-data-reject")
			vAssert(run.err != nil && len(run.log) == 0, "C14: a help token after `--` is data: the usual validation applies")
		}
		return
	}
	// statement transcribed: the first help token that no `--` precedes addresses the
	// command reached by following the sub-command names before it
	if exp.kind == rkHelp {
		h := -1
		for i, a := range argv {
			if a == "--" {
				break
			}
			if vIsHelpTok(a) {
				h = i
				break
			}
		}
		if h >= 0 {
			cur, path := root, "app"
			for i := 0; i < h; i++ {
				if k := vChildNamed(cur, argv[i]); k != nil {
					cur, path = k, path+" "+vFirstName(k.names)
				}
			}
			vAssert(cur == exp.cmd && path == exp.path, "C14 oracle: router and statement disagree on the addressed command")
			vCover("help-no-dd-before")
		} else {
			vCover("help-after-validated-level")
		}
	}
	run := vRunTree(root, version, policy, argv, nil)
	vObserve("kind", exp.kind)
	vObserve("exits", run.exits)
	vAssert(len(run.log) == 0, "C14: an Action or interceptor ran on a help/version request")
	vAssert(!run.panicked, "C14: help/version request panicked")
	vAssert(run.err == nil, "C14: help/version request returned an error")
	if policy == flag.ExitOnError {
		vAssert(run.exited && run.exits == 1 && run.exitCode == 0, "C14: under ExitOnError a help/version request must exit once with status 0")
	} else {
		vAssert(!run.exited && run.exits == 0, "C14: help/version request exited although the policy is not ExitOnError")
	}
	if exp.kind == rkVersion {
		vCover("version")
		vAssert(run.out == vVersionString+"\n", "C14: the version string is not what is printed")
		return
	}
	vCover("help")
	vAssert(strings.HasPrefix(run.out, vUsageLine(exp.cmd, exp.path)), "C14: help does not start with the usage of the addressed command")
	if exp.cmd.longDesc != "" {
		vAssert(strings.Contains(run.out, "\n\n"+exp.cmd.longDesc+"\n"), "C14: long description not shown")
	}
}

// ---------------------------------------------------------------------------------
// C09 on command trees: inserting `--` into the trailing block of positional tokens of
// one level's own arguments changes nothing - not the routing to the sub-commands that
// follow, not the bindings, not the verdict.

func init() {
	vRegister("H_dd_tree", H_dd_tree)
}

func H_dd_tree() {
	vTreeEnvSetup()
	root, version := vTree(vParamInt("tree"))
	argv := vTreeArgv()
	vNoHelp(argv)
	for _, a := range argv {
		vAssume(a != "--")
	}
	if version {
		vAssume(len(argv) == 0 || (argv[0] != "-v" && argv[0] != "--version"))
	}
	exp := &vExpect{}
	vRefTree(root, "app", argv, true, version, exp)
	vAssume(len(exp.levels) > 0)
	// the level whose own tokens get the `--`, and where they start in argv
	li := vChoice("level", len(exp.levels))
	lvl := exp.levels[li]
	vAssume(!lvl.intOpt) // every token of the level that does not start with a dash is a positional
	off := 0
	for i := 0; i < li; i++ {
		off += len(exp.tokens[i]) + 1 // the level's tokens and the name of the next command
	}
	own := exp.tokens[li]
	// trailing block of non-dash tokens
	start := len(own)
	for start > 0 && !(len(own[start-1]) > 0 && own[start-1][0] == '-') {
		start--
	}
	p := start + vChoice("at", len(own)-start+1)
	var with []string
	with = append(with, argv[:off+p]...)
	with = append(with, "--")
	with = append(with, argv[off+p:]...)
	base := vRunTree(root, version, flag.ContinueOnError, argv, nil)
	ins := vRunTree(root, version, flag.ContinueOnError, with, nil)
	vObserve("log", base.log)
	vObserve("err", base.err != nil)
	vAssert(!base.panicked && !ins.panicked, "Run panicked")
	vAssert((base.err == nil) == (ins.err == nil), "C09: inserting `--` in a level's trailing positional block changed the verdict")
	vAssert(vEqInts(base.log, ins.log), "C09: inserting `--` in a level's trailing positional block changed what runs")
	if base.err == nil {
		vCover("accepted")
		for _, l := range exp.levels {
			b, i := base.recs[l.id], ins.recs[l.id]
			vAssert(b.seen == i.seen && b.f == i.f && b.n == i.n && vEqStrs(b.x, i.x), "C09: inserting `--` in a level's trailing positional block changed a binding")
		}
	} else {
		vCover("rejected")
	}
}

// ---------------------------------------------------------------------------------
// C03 on command trees: whatever the tokens (help tokens, `--`, command names, raw
// bytes) and the policy, Run never dies with a runtime error.

func init() {
	vRegister("H_tree_total", H_tree_total)
}

func H_tree_total() {
	vTreeEnvSetup()
	root, version := vTree(vParamInt("tree"))
	argv := vHelpArgv(root, vParamInt("K"), vParamInt("L"))
	pol := vChoice("policy", 3)
	policy := []flag.ErrorHandling{flag.ContinueOnError, flag.ExitOnError, flag.PanicOnError}[pol]
	run := vRunTree(root, version, policy, argv, nil)
	vObserve("panicked", run.panicked)
	vObserve("exited", run.exited)
	if run.panicked {
		vCover("panicked")
		vAssert(!vIsRuntimeError(run.panicV), "C03: Run died with a runtime error")
		vAssert(policy == flag.PanicOnError, "C03: Run panicked although the policy is not PanicOnError")
	} else {
		vCover("returned-or-exited")
	}
}
