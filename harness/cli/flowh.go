package cli

// C05: Before/Action/After order, Afters always run, Exit comes last.
// Every hook along a path of depth d is one of {absent, returns, panics(v), Exit(n)};
// the oracle is the 20-line chain reference of DESIGN.md D.3.

import (
	"errors"
	"flag"
)

func init() {
	vRegister("H_flow", H_flow)
}

const (
	hkAbsent = iota
	hkReturns
	hkPanics
	hkExits
)

type vHook struct {
	kind int
	val  interface{} // panic value (boxed symbolic int)
	code int         // exit code
}

// vRuntimeBoom marks a hook that fails with a runtime error instead of an explicit panic.
type vRuntimeBoom struct{}

// event: how Run ended
const (
	evNil = iota
	evExit
	evPanic
)

func H_flow() {
	d := vParamInt("d")
	// hooks indexed B0..Bd, ACT, Ad..A0
	nh := 2*d + 3
	hooks := make([]vHook, nh)
	for i := range hooks {
		hooks[i].kind = vChoice("kind", 4)
		switch hooks[i].kind {
		case hkPanics:
			nk := 4
			if d >= 2 {
				nk = 1 // deeper trees: symbolic integer panic values only (path count)
			}
			switch vChoice("panicvalkind", nk) {
			case 3:
				hooks[i].val = vRuntimeBoom{} // the hook hits a genuine runtime error (write to a nil map)
			case 0:
				hooks[i].val = vNondetValue("panicval")
			case 1:
				hooks[i].val = errors.New("boom") // a value that implements error
			case 2:
				hooks[i].val = "boom-" + vNondetString("panicstr", 1)
			}
		case hkExits:
			hooks[i].code = vNondetInt("code", -1<<31, 1<<31)
		}
	}
	var log []int
	mk := func(i int) func() {
		if hooks[i].kind == hkAbsent {
			return nil
		}
		return func() {
			log = append(log, i)
			switch hooks[i].kind {
			case hkPanics:
				if _, rt := hooks[i].val.(vRuntimeBoom); rt {
					var nilMap map[int]int
					nilMap[i] = 1
				}
				panic(hooks[i].val)
			case hkExits:
				Exit(hooks[i].code)
			}
		}
	}
	stdErr = vDiscard{}
	stdOut = vDiscard{}
	exits := 0
	exitCode := 0
	exiter = func(code int) {
		exits++
		exitCode = code
		panic(vExitPanic{code})
	}
	app := App("app", "")
	app.ErrorHandling = flag.ContinueOnError
	if d <= 1 && hooks[d+1].kind != hkAbsent {
		// the flow does not depend on the error policy: valid invocations, all three policies
		// (a command without Action prints its usage and follows the policy: C07, not C05)
		app.ErrorHandling = []flag.ErrorHandling{flag.ContinueOnError, flag.ExitOnError, flag.PanicOnError}[vChoice("policy", 3)]
	}
	var wire func(c *Cmd, lvl int)
	wire = func(c *Cmd, lvl int) {
		c.Before = mk(lvl)
		c.After = mk(2*d + 2 - lvl)
		if lvl == d {
			c.Action = mk(d + 1)
			return
		}
		c.Command("c", "", func(cc *Cmd) { wire(cc, lvl+1) })
	}
	wire(app.Cmd, 0)
	argv := []string{"app"}
	for i := 0; i < d; i++ {
		argv = append(argv, "c")
	}
	var err error
	var rec interface{}
	exited := false
	func() {
		defer func() {
			if r := recover(); r != nil {
				if _, ok := r.(vExitPanic); ok {
					exited = true
					return
				}
				rec = r
			}
		}()
		err = app.Run(argv)
	}()

	// ---- reference chain
	var want []int
	final := evNil
	var raised *vHook
	if hooks[d+1].kind != hkAbsent {
		completed, failed := 0, false
		for i := 0; i <= d; i++ {
			if hooks[i].kind != hkAbsent {
				want = append(want, i)
				if hooks[i].kind >= hkPanics {
					raised, failed = &hooks[i], true
					break
				}
			}
			completed = i + 1
		}
		if !failed {
			want = append(want, d+1)
			if hooks[d+1].kind >= hkPanics {
				raised = &hooks[d+1]
			}
		}
		for lvl := completed - 1; lvl >= 0; lvl-- {
			i := 2*d + 2 - lvl
			if hooks[i].kind == hkAbsent {
				continue
			}
			want = append(want, i)
			if hooks[i].kind >= hkPanics {
				raised = &hooks[i]
			}
		}
		if raised != nil {
			if raised.kind == hkExits {
				final = evExit
			} else {
				final = evPanic
			}
		}
	} else {
		vCover("no-action")
	}
	vObserve("log", log)
	vObserve("exited", exited)
	vObserve("panicked", rec != nil)
	vAssert(vEqInts(log, want), "C05: hooks did not run in the expected order / set")
	vAssert(err == nil, "C05: Run returned an error on a valid invocation")
	switch final {
	case evNil:
		vCover("returns")
		vAssert(!exited && exits == 0 && rec == nil, "C05: nothing was raised but Run exited or panicked")
	case evExit:
		vCover("exit")
		vAssert(exited && exits == 1 && rec == nil, "C05: the last raised value is Exit(n): the process must exit exactly once, after the last After")
		vObserve("code", exitCode)
		vAssert(exitCode == raised.code, "C05: exit status is not the most recently raised code")
	case evPanic:
		vCover("panic")
		vAssert(!exited && exits == 0 && rec != nil, "C05: the last raised value is a panic: it must reach Run's caller, no exit")
		if _, rt := raised.val.(vRuntimeBoom); rt {
			vAssert(vIsRuntimeError(rec), "C05: the re-raised panic value is not the most recently raised one (a runtime error)")
		} else {
			vAssert(rec == raised.val, "C05: the re-raised panic value is not the most recently raised one")
		}
	}
}
