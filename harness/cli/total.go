package cli

// C03: compilation and parsing terminate without crashing (H_doinit_total,
// H_apply_total), and C08's H_run_panics.

import (
	"flag"

	"github.com/jawher/mow.cli/internal/lexer"
	"github.com/jawher/mow.cli/internal/parser"
)

func init() {
	vRegister("H_apply_total", H_apply_total)
	vRegister("H_doinit_total", H_doinit_total)
}

var vEnvNames = [nOpts]string{"VA", "VB", "VO", "VE"}
var vEnvVals = [nOpts]string{"true", "true", "v", "w"}

// vEnvCandidates: which of the four variables may be set (bit i = option i); the
// others stay unset. 15 = every subset of all four.
var vEnvCandidates = 15

// vSymbolicEnv sets a symbolic subset of the candidate variables; returns the mask.
func vSymbolicEnv() (set [nOpts]bool) {
	for i := 0; i < nOpts; i++ {
		if vEnvCandidates&(1<<uint(i)) == 0 {
			continue
		}
		if vNondetBool("env." + vEnvNames[i]) {
			vSetenv(vEnvNames[i], vEnvVals[i])
			set[i] = true
		}
	}
	return
}

// H_apply_total: Run on a well-formed spec terminates within the derived recursion
// bound, without a runtime error, with one of the documented outcomes, for every
// subset of options backed by an environment variable.
func H_apply_total() {
	spec := vParamString("spec")
	_, ok := rParseSpec(spec)
	vAssert(ok, "family spec is not well-formed for the reference")
	vEnvCandidates = vParamInt("envmask")
	set := vSymbolicEnv()
	argv := vArgvFor(vParamString("profile"))
	vNoHelp(argv)
	total := 0
	for _, t := range argv {
		total += len(t)
	}
	// DESIGN 2.6: between two consuming steps at most 2|Q| non-consuming ones; |Q| <= 2*len(spec)+2
	depth := (total + len(argv) + 2) * (4*len(spec) + 6)
	vLimitDepth("fsm.State.apply", depth)
	vLimitDepth("fsm.State.applyFrom", depth)
	vLimitCalls("fsm.State.simplifySelf", 40*(len(spec)+2)*(len(spec)+2))
	out := vRunTable(vAppCfg{spec: spec, envAll: true, policy: flag.ContinueOnError}, argv)
	vObserveOutcome("impl", out)
	anyEnv := false
	for _, b := range set {
		if b {
			anyEnv = true
		}
	}
	if anyEnv {
		vCover("env-backed")
	}
	if out.panicked {
		vAssert(!vIsRuntimeError(out.panicV), "runtime error while parsing a command line")
		vAssert(false, "Run panicked on a well-formed spec")
	}
	vAssert(!out.exited, "Run exited under ContinueOnError")
	if out.err == nil {
		vCover("accepted")
		vAssert(out.ran == 1, "nil error but the Action did not run exactly once")
	} else {
		vCover("usage-error")
		vAssert(out.ran == 0, "usage error but the Action ran")
	}
}

// H_doinit_total: compiling an arbitrary byte string as a spec either succeeds or
// panics with a *lexer.ParseError positioned inside the string; never a runtime error,
// never a hang; no Action or interceptor runs when the spec is rejected (C08).
func H_doinit_total() {
	ls := vParamInt("Ls")
	spec := vNondetString("spec", ls)
	vAssume(len(spec) > 0) // the empty spec means "synthesise one" (C16)
	stdErr = vDiscard{}
	stdOut = vDiscard{}
	exiter = func(code int) { panic(vExitPanic{code}) }
	app := App("app", "")
	onSub := vParamInt("sub") == 1 // the spec belongs to a sub-command, reached under any error policy
	app.ErrorHandling = flag.ContinueOnError
	hooks := 0
	declare := func(c *Cmd) {
		c.Spec = spec
		c.Bool(BoolOpt{Name: "a aa"})
		c.Bool(BoolOpt{Name: "b bb"})
		c.Strings(StringsOpt{Name: "o oo"})
		c.Strings(StringsOpt{Name: "e ee"})
		c.Strings(StringsArg{Name: "X"})
		c.Strings(StringsArg{Name: "Y"})
		c.Before = func() { hooks++ }
		c.After = func() { hooks++ }
		c.Action = func() { hooks++ }
	}
	argv := []string{"app", "--", "x"}
	// the spec is compiled whatever the command line asks for
	switch vParamInt("argvKind") {
	case 1:
		argv = []string{"app", "-h"}
	case 2:
		// (a long name only: no spec of the explored length can refer to it)
		app.Version("version", "1.0")
		argv = []string{"app", "--version"}
	case 3:
		argv = []string{"app"}
	case 4:
		app.Version("version", "1.0")
		argv = []string{"app", "--version", "x"}
	}
	if onSub {
		app.ErrorHandling = []flag.ErrorHandling{flag.ContinueOnError, flag.ExitOnError, flag.PanicOnError}[vChoice("policy", 3)]
		app.Command("c", "", declare)
		argv = []string{"app", "c", "--", "x"}
	} else {
		declare(app.Cmd)
	}
	vLimitCalls("fsm.State.simplifySelf", 40*(len(spec)+2)*(len(spec)+2))
	var rec interface{}
	func() {
		defer func() { rec = recover() }()
		app.Run(argv)
	}()
	// the reference lexer and grammar (ref.go) say whether the spec is well-formed over the table
	_, wellFormed := rParseSpec(spec)
	if _, isExit := rec.(vExitPanic); isExit {
		rec = nil // a usage error under ExitOnError: the spec itself compiled
	}
	if e, isErr := rec.(error); isErr && app.ErrorHandling == flag.PanicOnError {
		if _, isPE := e.(*lexer.ParseError); !isPE {
			rec = nil // a usage error under PanicOnError: the spec itself compiled
		}
	}
	if rec == nil {
		vCover("compiled")
		vObserve("compiled", true)
		vAssert(wellFormed, "C08: an ill-formed spec must make Run panic with the spec error before anything runs")
		return
	}
	vObserve("compiled", false)
	vAssert(!vIsRuntimeError(rec), "runtime error while compiling a spec")
	pe, isPE := rec.(*lexer.ParseError)
	vAssert(isPE, "Run panicked with something that is not a *lexer.ParseError")
	vCover("spec-error")
	vAssert(!wellFormed, "C08: Run rejects a spec that is well-formed per the spec grammar")
	vObserve("pos", pe.Pos)
	vAssert(pe.Pos >= 0 && pe.Pos <= len(spec), "spec error position outside the string")
	vAssert(pe.Pos <= len(pe.Input), "spec error position outside the string it reports")
	vAssert(pe.Input == spec, "C08: the spec error does not report the spec string as the user wrote it")
	// the position is the one the lexer / parser report for this very string (their own
	// positions are checked against the reference by H_lex_ref and H_parse_ref)
	if toks, lerr := lexer.Tokenize(spec); lerr != nil {
		vAssert(pe.Pos == lerr.(*lexer.ParseError).Pos, "C08: Run reports a lexical error at another position than the lexer")
	} else {
		target := app.Cmd
		if onSub {
			target = app.commands[0]
		}
		_, perr := parser.Parse(toks, parser.Params{Spec: spec, Options: target.options, OptionsIdx: target.optionsIdx, Args: target.args, ArgsIdx: target.argsIdx})
		vAssert(perr != nil, "C08: Run rejects a spec its own parser accepts")
		vAssert(pe.Pos == perr.(*lexer.ParseError).Pos, "C08: Run reports a syntax error at another position than the parser")
	}
	vAssert(hooks == 0, "an Action or interceptor ran although the spec was rejected")
	_ = pe.Error()
}
