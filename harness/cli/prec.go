package cli

// C06 (command line, then environment, then default), C15 (SetByUser), C13 (typed
// values agree with strconv; unparsable command-line values are usage errors), for the
// seven built-in types as option and as argument. Oracle: DESIGN.md D.5, with strconv
// as the (uninterpreted, lazily ground-truthed) parsing oracle.

import (
	"flag"
	"math"
	"strconv"
	"strings"
)

func init() {
	vRegister("H_prec", H_prec)
}

const (
	tBool = iota
	tString
	tInt
	tFloat
	tStrings
	tInts
	tFloats
)

type vVal struct {
	b bool
	s string
	i int
	f float64
}

func vMulti(t int) bool { return t >= tStrings }

func vElemType(t int) int {
	switch t {
	case tStrings:
		return tString
	case tInts:
		return tInt
	case tFloats:
		return tFloat
	}
	return t
}

// vParseAs: the documented conversion of a token to type t (element type for lists).
func vParseAs(t int, s string) (vVal, bool) {
	switch vElemType(t) {
	case tBool:
		b, err := strconv.ParseBool(s)
		return vVal{b: b}, err == nil
	case tString:
		return vVal{s: s}, true
	case tInt:
		i, err := strconv.ParseInt(s, 10, 64)
		return vVal{i: int(i)}, err == nil
	case tFloat:
		f, err := strconv.ParseFloat(s, 64)
		return vVal{f: f}, err == nil
	}
	return vVal{}, false
}

func vValEq(t int, a, b vVal) bool {
	switch vElemType(t) {
	case tBool:
		return a.b == b.b
	case tString:
		return a.s == b.s
	case tInt:
		return a.i == b.i
	case tFloat:
		return math.Float64bits(a.f) == math.Float64bits(b.f)
	}
	return false
}

func vValsEq(t int, a, b []vVal) bool {
	if len(a) != len(b) {
		return false
	}
	for i := range a {
		if !vValEq(t, a[i], b[i]) {
			return false
		}
	}
	return true
}

func vSymDefault(t int, tag string) vVal {
	if vUseShortAPI > 0 {
		// the short functions cannot hide the default in the help: keep it concrete (a
		// symbolic one cannot be rendered by the engine)
		switch vElemType(t) {
		case tBool:
			return vVal{b: vChoice(tag+".b", 2) == 1}
		case tString:
			return vVal{s: "d"}
		case tInt:
			return vVal{i: 7}
		}
		return vVal{f: 1.5}
	}
	switch vElemType(t) {
	case tBool:
		return vVal{b: vNondetBool(tag)}
	case tString:
		return vVal{s: vNondetString(tag, 2)}
	case tInt:
		return vVal{i: vNondetInt(tag, -1<<62, 1<<62)}
	case tFloat:
		return vVal{f: 1.5}
	}
	return vVal{}
}

// The default of a multi-valued parameter as a Go slice. With vShareDefaults the very
// same slice (same backing array) is handed to every declaration of the harness run,
// the common way for an application to share one default between parameters.
var (
	vShareDefaults bool
	vSharedStrings []string
	vSharedInts    []int
	vSharedFloats  []float64
)

func vDefStrings(def []vVal) []string {
	if vShareDefaults && vSharedStrings != nil {
		return vSharedStrings
	}
	var d []string
	for _, v := range def {
		d = append(d, v.s)
	}
	vSharedStrings = d
	return d
}

func vDefInts(def []vVal) []int {
	if vShareDefaults && vSharedInts != nil {
		return vSharedInts
	}
	var d []int
	for _, v := range def {
		d = append(d, v.i)
	}
	vSharedInts = d
	return d
}

func vDefFloats(def []vVal) []float64 {
	if vShareDefaults && vSharedFloats != nil {
		return vSharedFloats
	}
	var d []float64
	for _, v := range def {
		d = append(d, v.f)
	}
	vSharedFloats = d
	return d
}

// vUsePtrAPI selects the XxxPtr(&v, ...) flavour of the declaration functions.
var vUsePtrAPI bool

// vUseShortAPI selects the short declaration functions XxxOpt(name, value, desc) (1) or
// XxxOptPtr(&v, name, value, desc) (2): no environment variable, no SetByUser.
var vUseShortAPI int

// vDeclareTyped declares one option (-x/--xx) or argument (X) of type t and returns a
// reader of its current value as a list.
func vDeclareTyped(app *Cli, t int, asOpt bool, def []vVal, env string, user *bool) func() []vVal {
	if vUseShortAPI > 0 {
		return vDeclareTypedShort(app, t, asOpt, def, vUseShortAPI == 2)
	}
	if vUsePtrAPI {
		return vDeclareTypedPtr(app, t, asOpt, def, env, user)
	}
	switch t {
	case tBool:
		var p *bool
		if asOpt {
			p = app.Bool(BoolOpt{Name: "x xx", Value: def[0].b, EnvVar: env, SetByUser: user, HideValue: true})
		} else {
			p = app.Bool(BoolArg{Name: "X", Value: def[0].b, EnvVar: env, SetByUser: user, HideValue: true})
		}
		return func() []vVal { return []vVal{{b: *p}} }
	case tString:
		var p *string
		if asOpt {
			p = app.String(StringOpt{Name: "x xx", Value: def[0].s, EnvVar: env, SetByUser: user, HideValue: true})
		} else {
			p = app.String(StringArg{Name: "X", Value: def[0].s, EnvVar: env, SetByUser: user, HideValue: true})
		}
		return func() []vVal { return []vVal{{s: *p}} }
	case tInt:
		var p *int
		if asOpt {
			p = app.Int(IntOpt{Name: "x xx", Value: def[0].i, EnvVar: env, SetByUser: user, HideValue: true})
		} else {
			p = app.Int(IntArg{Name: "X", Value: def[0].i, EnvVar: env, SetByUser: user, HideValue: true})
		}
		return func() []vVal { return []vVal{{i: *p}} }
	case tFloat:
		var p *float64
		if asOpt {
			p = app.Float64(Float64Opt{Name: "x xx", Value: def[0].f, EnvVar: env, SetByUser: user, HideValue: true})
		} else {
			p = app.Float64(Float64Arg{Name: "X", Value: def[0].f, EnvVar: env, SetByUser: user, HideValue: true})
		}
		return func() []vVal { return []vVal{{f: *p}} }
	case tStrings:
		d := vDefStrings(def)
		var p *[]string
		if asOpt {
			p = app.Strings(StringsOpt{Name: "x xx", Value: d, EnvVar: env, SetByUser: user, HideValue: true})
		} else {
			p = app.Strings(StringsArg{Name: "X", Value: d, EnvVar: env, SetByUser: user, HideValue: true})
		}
		return func() []vVal {
			var out []vVal
			for _, s := range *p {
				out = append(out, vVal{s: s})
			}
			return out
		}
	case tInts:
		d := vDefInts(def)
		var p *[]int
		if asOpt {
			p = app.Ints(IntsOpt{Name: "x xx", Value: d, EnvVar: env, SetByUser: user, HideValue: true})
		} else {
			p = app.Ints(IntsArg{Name: "X", Value: d, EnvVar: env, SetByUser: user, HideValue: true})
		}
		return func() []vVal {
			var out []vVal
			for _, i := range *p {
				out = append(out, vVal{i: i})
			}
			return out
		}
	case tFloats:
		d := vDefFloats(def)
		var p *[]float64
		if asOpt {
			p = app.Floats64(Floats64Opt{Name: "x xx", Value: d, EnvVar: env, SetByUser: user, HideValue: true})
		} else {
			p = app.Floats64(Floats64Arg{Name: "X", Value: d, EnvVar: env, SetByUser: user, HideValue: true})
		}
		return func() []vVal {
			var out []vVal
			for _, f := range *p {
				out = append(out, vVal{f: f})
			}
			return out
		}
	}
	return nil
}

func vAsciiString(tag string, maxLen int) string {
	s := vNondetString(tag, maxLen)
	for i := 0; i < len(s); i++ {
		vAssume(s[i] < 0x80)
		vAssume(s[i] != 0) // environment values cannot hold NUL bytes
	}
	return s
}

// vRefValue: D.5.
func vRefValue(t int, cli []string, envs []string, def []vVal) (val []vVal, setByUser, accepted bool, fromDefaultAfterInvalidEnv bool) {
	var parsed []vVal
	for _, s := range cli {
		v, ok := vParseAs(t, s)
		if !ok {
			return nil, false, false, false
		}
		parsed = append(parsed, v)
	}
	if len(cli) > 0 {
		if vMulti(t) {
			return parsed, true, true, false
		}
		return parsed[len(parsed)-1:], true, true, false
	}
	sawNonEmpty := false
	for _, e := range envs {
		if e == "" {
			continue
		}
		sawNonEmpty = true
		if !vMulti(t) {
			if v, ok := vParseAs(t, e); ok {
				return []vVal{v}, false, true, false
			}
			continue
		}
		pieces := strings.Split(e, ",")
		var vs []vVal
		all := true
		for _, p := range pieces {
			v, ok := vParseAs(t, strings.TrimSpace(p))
			if !ok {
				all = false
				break
			}
			vs = append(vs, v)
		}
		if all {
			return vs, false, true, false
		}
	}
	return def, false, true, sawNonEmpty
}

func H_prec() {
	t := vParamInt("type")
	asOpt := vParamInt("opt") == 1
	vUsePtrAPI = vParamInt("ptr") == 1
	vUseShortAPI = 0
	if vParamInt("ptr") >= 2 {
		vUseShortAPI = vParamInt("ptr") - 1
	}
	sibling := vParamInt("sibling") == 1 // a second parameter of the same type declared with the same default slice
	vShareDefaults = sibling
	vSharedStrings, vSharedInts, vSharedFloats = nil, nil, nil
	check := vParamString("check")
	envLen := vParamInt("envLen")
	cliLen := vParamInt("cliLen")
	maxEnv := vParamInt("maxEnv")

	// default
	var def []vVal
	if vMulti(t) {
		nd := vChoice("ndef", 3)
		for i := 0; i < nd; i++ {
			def = append(def, vSymDefault(t, "def"))
		}
	} else {
		def = []vVal{vSymDefault(t, "def")}
	}
	// environment: 0..maxEnv listed variables, each unset/empty or holding symbolic ASCII bytes
	nenv := vChoice("nenv", maxEnv+1)
	envNames := []string{"E1", "E2", "E3"}[:nenv]
	var envs []string
	for _, n := range envNames {
		v := vAsciiString("env."+n, envLen)
		if v != "" {
			vSetenv(n, v)
		}
		envs = append(envs, v)
	}
	// command line: the value 0, 1 or 2 times; payloads are arbitrary bytes (an option
	// value is written attached with '=', or as a separate token when it may be)
	ncli := vChoice("ncli", 3)
	var cli []string
	for i := 0; i < ncli; i++ {
		p := vNondetString("cli", cliLen)
		if asOpt && t == tBool {
			vAssume(len(p) > 0) // a flag takes a value only in the attached form
		}
		cli = append(cli, p)
	}
	var argv []string
	usedFold := false
	usedAttached := false
	foldEq := false
	if asOpt {
		for _, p := range cli {
			form := 0 // --xx=p
			if len(p) == 0 {
				form = 1 // --xx p (separate)
			} else if t != tBool {
				nforms := 4
				if check == "C07" {
					nforms = 3 // (the attached short form is exercised under C06/C13/C15)
				}
				form = vChoice("form", nforms)
				if form == 1 && p[0] == '-' {
					form = 0
				}
				if form == 3 && p[0] == '=' {
					form = 0 // -x=p is the '=' spelling of the short form: the value would be p[1:]
				}
				if form == 2 && usedFold {
					form = 0 // the flag -w may occur once
				}
				if form == 2 {
					usedFold = true
				}
			}
			switch form {
			case 0:
				argv = append(argv, "--xx="+p)
			case 1:
				argv = append(argv, "--xx", p)
			case 2:
				// folded behind a flag, value attached: everything after the letter is the value,
				// a leading '=' included (as long as the option's own matcher sees the token first)
				argv = append(argv, "-wx"+p)
				if len(p) > 0 && p[0] == '=' {
					foldEq = true
				}
			case 3:
				// short form with the value attached (it may contain the letter of the flag -w)
				argv = append(argv, "-x"+p)
				usedAttached = true
			}
		}
	} else {
		argv = append([]string{"--"}, cli...)
	}

	buf := &vBuf{}
	stdErr = buf
	stdOut = vDiscard{}
	exits, exitCode := 0, 0
	exiter = func(code int) {
		exits++
		exitCode = code
		panic(vExitPanic{code})
	}
	app := App("app", "")
	policy := flag.ContinueOnError
	if check == "C07" {
		policy = []flag.ErrorHandling{flag.ContinueOnError, flag.ExitOnError, flag.PanicOnError}[vChoice("policy", 3)]
	}
	app.ErrorHandling = policy
	var user, wUser bool
	var wFlag *bool
	read := vDeclareTyped(app, t, asOpt, def, strings.Join(envNames, " "), &user)
	var readSibling func() []vVal
	if sibling {
		vUsePtrAPI = false
		var su bool
		sapp := App("sib", "") // declared on another application of the same process, same default data
		readSibling = vDeclareTyped(sapp, t, asOpt, def, "", &su)
		_ = sapp
	}
	if asOpt {
		wFlag = app.Bool(BoolOpt{Name: "w", SetByUser: &wUser}) // a flag the valued option can be folded behind
		app.Spec = "[--xx...] [-w]"
		if usedAttached && vChoice("flagfirst", 2) == 1 {
			app.Spec = "[-w] [--xx...]" // the flag's matcher looks at the tokens first
			// a fold carrying '=' after a flag (-wx=v) is read differently depending on which
			// matcher sees the token first: outside every claim (DESIGN 4.5)
			vAssume(!foldEq)
		}
		if vParamInt("specEnd") == 2 {
			app.Spec = "[OPTIONS]" // the same occurrences through an option group
		}
		if vParamInt("withArg") == 1 {
			// a positional argument that always converts follows the option values
			app.String(StringArg{Name: "Y"})
			app.Spec = "[--xx...] [-w] [Y]"
			argv = append(argv, "pos")
		}
		if check == "C12" {
			app.Spec = "--xx... [-w]" // the option is required
		}
	} else {
		app.Spec = "[X...]"
		if vParamInt("specEnd") == 1 {
			app.Spec = "-- [X...]" // options ended by the spec too: a second `--` on the command line is a value
		}
	}
	ran, hooks := 0, 0
	gotW, gotWUser := false, false
	var got []vVal
	gotUser := false
	app.Before = func() { hooks++ }
	app.After = func() { hooks++ }
	app.Action = func() {
		ran++
		got = read()
		gotUser = user
		if wFlag != nil {
			gotW, gotWUser = *wFlag, wUser
		}
	}
	var err error
	var rec interface{}
	exited := false
	func() {
		defer func() {
			if r := recover(); r != nil {
				if _, ok := r.(vExitPanic); ok {
					exited = true
					return
				}
				rec = r
			}
		}()
		err = app.Run(append([]string{"app"}, argv...))
	}()
	if check != "C07" {
		vAssert(rec == nil, "Run panicked")
	}

	want, wantUser, accepted, defAfterInvalid := vRefValue(t, cli, envs, def)
	vObserve("ran", ran)
	vObserve("err", err != nil)
	vObserve("accepted", accepted)
	if check == "C07" {
		// conversion errors are rejections: nothing runs, error + usage are printed, the policy is followed
		if !accepted {
			vCover("unparsable-cli-value")
			vAssert(ran == 0 && hooks == 0, "C07: an Action or interceptor ran although a value is not convertible to its type")
			vAssert(strings.HasPrefix(buf.s, "Error: "), "C07: the error is not written first to the error stream")
			vAssert(strings.Contains(buf.s, "\nUsage: app "+app.Spec+"\n"), "C07: the usage of the rejecting command is not written to the error stream")
			switch policy {
			case flag.ContinueOnError:
				vAssert(err != nil && !exited && rec == nil, "C07: ContinueOnError must return a non-nil error and nothing else")
			case flag.ExitOnError:
				vAssert(exited && exits == 1 && exitCode == 2 && rec == nil, "C07: ExitOnError must exit once with status 2")
			case flag.PanicOnError:
				_, isErr := rec.(error)
				vAssert(rec != nil && isErr && !exited, "C07: PanicOnError must panic with the error")
			}
		} else {
			vAssert(ran == 1 && hooks == 2 && err == nil && !exited && rec == nil, "C07: an accepted invocation must return nil and neither exit nor panic")
		}
		return
	}
	if check == "C12" {
		// a required option: satisfied by a valid environment value when absent, and never
		// rejected (nor its command-line values changed) because it also has one
		if !accepted {
			return
		}
		anyEnv := false
		for _, e := range envs {
			if e != "" {
				anyEnv = true
			}
		}
		if len(cli) > 0 {
			vCover("from-cli")
			vAssert(ran == 1 && err == nil, "C12: an option written on the command line with convertible values was rejected")
			vAssert(vValsEq(t, got, want), "C12: the values written on the command line are not the bound values")
		} else if anyEnv && !defAfterInvalid {
			vCover("required-from-env")
			vAssert(ran == 1 && err == nil, "C12: a required option absent from the command line is not satisfied by its valid environment value")
			vAssert(vValsEq(t, got, want), "C12: the bound value is not the environment value")
		}
		return
	}
	if !accepted {
		vCover("unparsable-cli-value")
		if check == "C13" {
			vAssert(ran == 0 && err != nil, "C13: a command-line value that strconv rejects must be a usage error and the Action must not run")
		}
		return
	}
	if check == "C13" {
		vAssert(ran == 1 && err == nil, "C13: every command-line value parses with strconv but the invocation was rejected")
	}
	if ran != 1 {
		return
	}
	if asOpt {
		// the flag -w is set exactly when the fold -wx<p> was written: letters inside another
		// option's attached value are data
		vAssert(gotW == usedFold && gotWUser == usedFold, "C15/C02: a flag was set (or marked set by the user) by a letter inside another option's attached value")
	}
	if len(cli) > 0 {
		vCover("from-cli")
	} else if !defAfterInvalid && !vValsEq(t, want, def) {
		vCover("from-env")
	} else {
		vCover("from-default")
	}
	if sibling {
		// the sibling got nothing from anywhere: it still holds the declared default
		vAssert(vValsEq(t, readSibling(), def), "C06: a parameter that received nothing no longer holds its declared default (default data shared with another parameter was written through)")
	}
	switch check {
	case "C15":
		vObserve("user", gotUser)
		vAssert(gotUser == wantUser, "C15: SetByUser must be true exactly when the command line supplied a value")
	case "C13":
		// an environment value that strconv rejects (wholly or in one element) binds nothing
		if len(cli) == 0 && defAfterInvalid && !vValsEq(t, got, def) {
			if vMulti(t) && len(got) == 0 && vKnownFinding("F5") {
				return
			}
			vAssert(false, "C13: an environment value that strconv rejects must not be bound, not even partly")
		}
		// the bound value equals strconv's parse (command line or environment delivery)
		if len(cli) > 0 || (!defAfterInvalid && len(envs) > 0) {
			if !vValsEq(t, got, want) {
				if len(cli) == 0 && vMulti(t) && len(got) == 0 && vKnownFinding("F5") {
					return
				}
				vAssert(false, "C13: bound value differs from strconv's parse of the token")
			}
		}
	case "C06":
		if !vValsEq(t, got, want) {
			// F5: an invalid environment list wipes the default of a multi-valued parameter
			if vMulti(t) && len(cli) == 0 && defAfterInvalid && len(def) > 0 && len(got) == 0 && vKnownFinding("F5") {
				vCover("KNOWN:F5")
				return
			}
			vAssert(false, "C06: value is not command line, else first valid environment variable, else default")
		}
	}
}

// vDeclareTypedPtr: the same through BoolPtr, StringPtr, ... (the variable is the caller's).
func vDeclareTypedPtr(app *Cli, t int, asOpt bool, def []vVal, env string, user *bool) func() []vVal {
	switch t {
	case tBool:
		p := new(bool)
		if asOpt {
			app.BoolPtr(p, BoolOpt{Name: "x xx", Value: def[0].b, EnvVar: env, SetByUser: user, HideValue: true})
		} else {
			app.BoolPtr(p, BoolArg{Name: "X", Value: def[0].b, EnvVar: env, SetByUser: user, HideValue: true})
		}
		return func() []vVal { return []vVal{{b: *p}} }
	case tString:
		p := new(string)
		if asOpt {
			app.StringPtr(p, StringOpt{Name: "x xx", Value: def[0].s, EnvVar: env, SetByUser: user, HideValue: true})
		} else {
			app.StringPtr(p, StringArg{Name: "X", Value: def[0].s, EnvVar: env, SetByUser: user, HideValue: true})
		}
		return func() []vVal { return []vVal{{s: *p}} }
	case tInt:
		p := new(int)
		if asOpt {
			app.IntPtr(p, IntOpt{Name: "x xx", Value: def[0].i, EnvVar: env, SetByUser: user, HideValue: true})
		} else {
			app.IntPtr(p, IntArg{Name: "X", Value: def[0].i, EnvVar: env, SetByUser: user, HideValue: true})
		}
		return func() []vVal { return []vVal{{i: *p}} }
	case tFloat:
		p := new(float64)
		if asOpt {
			app.Float64Ptr(p, Float64Opt{Name: "x xx", Value: def[0].f, EnvVar: env, SetByUser: user, HideValue: true})
		} else {
			app.Float64Ptr(p, Float64Arg{Name: "X", Value: def[0].f, EnvVar: env, SetByUser: user, HideValue: true})
		}
		return func() []vVal { return []vVal{{f: *p}} }
	case tStrings:
		d := vDefStrings(def)
		p := new([]string)
		if asOpt {
			app.StringsPtr(p, StringsOpt{Name: "x xx", Value: d, EnvVar: env, SetByUser: user, HideValue: true})
		} else {
			app.StringsPtr(p, StringsArg{Name: "X", Value: d, EnvVar: env, SetByUser: user, HideValue: true})
		}
		return func() []vVal {
			var out []vVal
			for _, s := range *p {
				out = append(out, vVal{s: s})
			}
			return out
		}
	case tInts:
		d := vDefInts(def)
		p := new([]int)
		if asOpt {
			app.IntsPtr(p, IntsOpt{Name: "x xx", Value: d, EnvVar: env, SetByUser: user, HideValue: true})
		} else {
			app.IntsPtr(p, IntsArg{Name: "X", Value: d, EnvVar: env, SetByUser: user, HideValue: true})
		}
		return func() []vVal {
			var out []vVal
			for _, i := range *p {
				out = append(out, vVal{i: i})
			}
			return out
		}
	case tFloats:
		d := vDefFloats(def)
		p := new([]float64)
		if asOpt {
			app.Floats64Ptr(p, Floats64Opt{Name: "x xx", Value: d, EnvVar: env, SetByUser: user, HideValue: true})
		} else {
			app.Floats64Ptr(p, Floats64Arg{Name: "X", Value: d, EnvVar: env, SetByUser: user, HideValue: true})
		}
		return func() []vVal {
			var out []vVal
			for _, f := range *p {
				out = append(out, vVal{f: f})
			}
			return out
		}
	}
	return nil
}

// vDeclareTypedShort: the same through BoolOpt(name, value, desc), BoolOptPtr(&v, ...),
// BoolArg(...), ... (28 functions).
func vDeclareTypedShort(app *Cli, t int, asOpt bool, def []vVal, ptr bool) func() []vVal {
	name := "X"
	if asOpt {
		name = "x xx"
	}
	switch t {
	case tBool:
		p := new(bool)
		switch {
		case asOpt && ptr:
			app.BoolOptPtr(p, name, def[0].b, "")
		case asOpt:
			p = app.BoolOpt(name, def[0].b, "")
		case ptr:
			app.BoolArgPtr(p, name, def[0].b, "")
		default:
			p = app.BoolArg(name, def[0].b, "")
		}
		return func() []vVal { return []vVal{{b: *p}} }
	case tString:
		p := new(string)
		switch {
		case asOpt && ptr:
			app.StringOptPtr(p, name, def[0].s, "")
		case asOpt:
			p = app.StringOpt(name, def[0].s, "")
		case ptr:
			app.StringArgPtr(p, name, def[0].s, "")
		default:
			p = app.StringArg(name, def[0].s, "")
		}
		return func() []vVal { return []vVal{{s: *p}} }
	case tInt:
		p := new(int)
		switch {
		case asOpt && ptr:
			app.IntOptPtr(p, name, def[0].i, "")
		case asOpt:
			p = app.IntOpt(name, def[0].i, "")
		case ptr:
			app.IntArgPtr(p, name, def[0].i, "")
		default:
			p = app.IntArg(name, def[0].i, "")
		}
		return func() []vVal { return []vVal{{i: *p}} }
	case tFloat:
		p := new(float64)
		switch {
		case asOpt && ptr:
			app.Float64OptPtr(p, name, def[0].f, "")
		case asOpt:
			p = app.Float64Opt(name, def[0].f, "")
		case ptr:
			app.Float64ArgPtr(p, name, def[0].f, "")
		default:
			p = app.Float64Arg(name, def[0].f, "")
		}
		return func() []vVal { return []vVal{{f: *p}} }
	case tStrings:
		d := vDefStrings(def)
		p := new([]string)
		switch {
		case asOpt && ptr:
			app.StringsOptPtr(p, name, d, "")
		case asOpt:
			p = app.StringsOpt(name, d, "")
		case ptr:
			app.StringsArgPtr(p, name, d, "")
		default:
			p = app.StringsArg(name, d, "")
		}
		return func() []vVal {
			var out []vVal
			for _, s := range *p {
				out = append(out, vVal{s: s})
			}
			return out
		}
	case tInts:
		d := vDefInts(def)
		p := new([]int)
		switch {
		case asOpt && ptr:
			app.IntsOptPtr(p, name, d, "")
		case asOpt:
			p = app.IntsOpt(name, d, "")
		case ptr:
			app.IntsArgPtr(p, name, d, "")
		default:
			p = app.IntsArg(name, d, "")
		}
		return func() []vVal {
			var out []vVal
			for _, i := range *p {
				out = append(out, vVal{i: i})
			}
			return out
		}
	case tFloats:
		d := vDefFloats(def)
		p := new([]float64)
		switch {
		case asOpt && ptr:
			app.Floats64OptPtr(p, name, d, "")
		case asOpt:
			p = app.Floats64Opt(name, d, "")
		case ptr:
			app.Floats64ArgPtr(p, name, d, "")
		default:
			p = app.Floats64Arg(name, d, "")
		}
		return func() []vVal {
			var out []vVal
			for _, f := range *p {
				out = append(out, vVal{f: f})
			}
			return out
		}
	}
	return nil
}
