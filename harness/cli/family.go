package cli

// Spec families over the declaration table (DESIGN.md section 5, C01-E). The
// functions are run concretely by the engine to enumerate the units of a check.

func vRepOf(u string, compound bool) string {
	if compound {
		return "(" + u + ")..."
	}
	return u + "..."
}

// vWrap applies wrapper w in {plain, [.], (.)..., [(.)...], [.]...} to u.
func vWrap(u string, compound bool, w int) string {
	switch w {
	case 0:
		if compound {
			return "(" + u + ")"
		}
		return u
	case 1:
		return "[" + u + "]"
	case 2:
		return vRepOf(u, compound)
	case 3:
		return "[" + vRepOf(u, compound) + "]"
	case 4:
		return "[" + u + "]..."
	}
	return u
}

var vAtoms8 = []string{"-a", "-o", "X", "-ab", "OPTIONS", "Y", "-b", "-abo"}

func vFamilyGenerated() []string {
	var out []string
	// one unit
	for _, a := range vAtoms8 {
		for w := 0; w < 5; w++ {
			out = append(out, vWrap(a, false, w))
		}
	}
	// two units over the first six atoms
	var units []string
	for _, a := range vAtoms8[:6] {
		for w := 0; w < 5; w++ {
			units = append(units, vWrap(a, false, w))
		}
	}
	for _, u1 := range units {
		for _, u2 := range units {
			out = append(out, u1+" "+u2)
		}
	}
	// choices of two atoms under the wrappers
	for i, a1 := range vAtoms8 {
		for j, a2 := range vAtoms8 {
			if i == j {
				continue
			}
			for w := 0; w < 5; w++ {
				out = append(out, vWrap(a1+" | "+a2, true, w))
			}
		}
	}
	// grouped sequences of two atoms under the non-plain wrappers
	for _, a1 := range vAtoms8 {
		for _, a2 := range vAtoms8 {
			for w := 1; w < 5; w++ {
				out = append(out, vWrap(a1+" "+a2, true, w))
			}
		}
	}
	return out
}

// vFamilyCurated: spec shapes of README, doc.go and commands_test.go mapped onto the
// table, towers of nested repetition / optional, ambiguous specs.
func vFamilyCurated() []string {
	return []string{
		"X", "[-a] X", "-a -b", "[-a -b]", "[-ab]", "[OPTIONS] X Y", "X...", "X... Y", "[X...] Y", "X Y...", "X... Y...",
		"-a | -b", "(-a | -b) X", "[-a | -b]", "-o...", "[-o...] X", "(-o X)...", "[(-o X)... Y]", "-a [-b] X [Y]",
		"[-a [-b]]", "X [Y]", "[X] Y", "[X] [Y]", "-ab X", "-abo", "[-a] [-o] X...", "(X | -a)...", "[X Y]...",
		"((-a X) | (Y [-a]))", "-a -a", "[-a] [-a]", "-ab -a", "-a -ab", "-o -o", "[-o] -o X", "X -a", "X [-a] Y",
		"-o=<file> X", "--oo=<x> [--aa]", "--aa --bb", "[--oo...] X", "(X Y)...", "X (Y | -a)...", "[-a | X] Y", "[-a X | -b Y]",
		"(-a | -b | -o)...", "[OPTIONS] X...", "[OPTIONS] [X...]", "-e X", "[-e] [-o] X", "-abo X", "[-ab | -o] X",
		"((X...)...)...", "[[X]...]...", "([-a]...)...", "[[-a]... X]...", "([X] [Y])...", "[[X] [Y]]", "(X | Y)... X",
		"X [X] [X]", "[X] [X] X", "[X]... X", "X... X", "[-a]... -a", "-a... -a", "[-a | -b]... X", "(-a | X)... Y",
		"[-o]... [X]...", "-o X -o Y", "(-o | X)...",
		"-a... [-b]", "-a... -b", "-b -a...", "(-a | -b)... X", "[-o] [-e]", "-o -e", "[-a] [-o]", "[-a] [-o] [X]", "[-b] [-o] [-e]...",
		"[--aa] [--oo] [--ee]", "-a [-b]... [-o]", "[-ab] [-o] X", "[-ab] [-e] [X]", "-ab -o", "[-abo] [-e] X",
		"[-o] [-a]", "-o -a", "-b [-a] [-o]", "[X Y...] X", "[-o X...] Y", "[X Y...] Y", "[-ab] X [-o]", "[-a] [-b]", "[-ab] [-o]",
		"(X Y...)... X", "[X [Y]...] X",
	}
}

// vFamilyEnd: specs containing the spec-level `--`.
func vFamilyEnd() []string {
	return []string{
		"-- X", "-a -- X", "[-a] -- X...", "-a [-- X]", "(-- X)...", "X -- Y...", "-ab -- X", "[-o] X -- [Y]",
		"[OPTIONS] -- X...", "X --", "-- X Y", "[-a] [-- ] X", "-o -- X...", "[-- X]", "(-a | -- ) X",
		"(X -- Y...) | (-- X)", "(-a -- X) | (-- Y)", "-- X | -- Y", "(-a -- | -- ) X",
	}
}

// vFamilyOpt: specs mentioning at least one option and no spec-level `--` (C10, C11).
func vHasOption(s string) bool {
	for i := 0; i+1 < len(s); i++ {
		if s[i] == '-' && s[i+1] != ' ' {
			return true
		}
		if s[i] == 'O' && s[i+1] == 'P' {
			return true
		}
	}
	return false
}

// vFamilyEnv: shapes in which an environment-backed option meets repetition, choice
// and option groups (C03, C12).
func vFamilyEnv() []string {
	return []string{
		"-e...", "[-e]...", "[-e...] X", "[-e]... X", "-e... X", "(-e | -a)...", "(-e | -a)... X", "-ae", "[OPTIONS]", "[OPTIONS] X",
		"-e X", "[-e] X", "-e -a", "[-e | -a] X", "-e... -a", "(-e X)...", "[-ae] X", "-a... X", "(-a -e)...", "-e -e",
		"[-e [-a]]...", "X [-e]...", "([-e] X)...", "-o... -e...", "[-e...]... X",
		"(-a | -e)... X", "(-a | -e)...", "[OPTIONS] X [OPTIONS]", "[-ae] X [-ae]", "[-a | -e]... X", "(-o | -e)... X",
	}
}

// vFamilyEnvEnd: the same with a spec-level `--`.
func vFamilyEnvEnd() []string {
	return []string{"(-e -- )... X", "-e -- X", "[-e] -- X...", "[-e...] -- X"}
}
