package cli

// C01-E / C02: the real Cli.Run against the reference matcher on the same symbolic
// argument vector.

import (
	"flag"
	"strconv"
)

func init() {
	vRegister("H_accept", H_accept)
}

// vFoldEq: a folded short-option token in which '=' is reached after a flag
// ("-ab=v"); excluded from C01 (DESIGN 4.5 ii).
func vFoldEq(t string) bool {
	if len(t) < 4 || t[0] != '-' || t[1] == '-' || t[2] == '=' {
		return false
	}
	for i := 1; i < len(t); i++ {
		if t[i] == '=' {
			return i > 1
		}
		o := vByShort(t[i])
		if o < 0 || !vOptTable[o].flag {
			return false
		}
	}
	return false
}

func vArgvFor(profile string) []string {
	switch profile {
	case "raw":
		return vRawArgv(vParamInt("K"), vParamInt("L"))
	case "tmpl":
		return vTemplateArgv(vParamInt("K"), vParamInt("Lp"), vAllShapes)
	case "tmplmini":
		// the well-formed core of the template: positional, `--`, short flag, valued option (separate and '=')
		return vTemplateArgv(vParamInt("K"), vParamInt("Lp"), []int{shPos, shDD, shFlagShort, shValSep, shValEq, shValLongEq, shHelp})
	case "long":
		// long command lines over a small alphabet: positional, short flag, valued option with a
		// separate value (1-byte payloads)
		return vTemplateArgv(vParamInt("K"), 1, []int{shPos, shFlagShort, shValSep})
	}
	panic("unknown profile " + profile)
}

// rFlagsParse: every value bound to a flag converts; returns the final values.
func rFlagsParse(d rBind) (ok bool, a, b bool) {
	ok = true
	for _, v := range d.opts[oA] {
		x, err := strconv.ParseBool(v)
		if err != nil {
			return false, false, false
		}
		a = x
	}
	for _, v := range d.opts[oB] {
		x, err := strconv.ParseBool(v)
		if err != nil {
			return false, false, false
		}
		b = x
	}
	return
}

func H_accept() {
	spec := vParamString("spec")
	check := vParamString("check")
	root, ok := rParseSpec(spec)
	vAssert(ok, "family spec is not well-formed for the reference")
	shared := vParamInt("shared") == 1 // -o/-e and X/Y declared with one shared non-empty default slice
	vResetShared()
	argv := vArgvFor(vParamString("profile"))
	if check == "C09" {
		// after the first `--` everything is data, help tokens included
		for _, t := range argv {
			if t == "--" {
				break
			}
			vAssume(!vIsHelpTok(t))
		}
	} else {
		vNoHelp(argv)
	}
	for _, t := range argv {
		vAssume(!vFoldEq(t))
	}
	out := vRunTable(vAppCfg{spec: spec, policy: flag.ContinueOnError, shared: shared}, argv)
	vObserveOutcome("impl", out)

	m := &rMatcher{strictDash: true, hasEnd: rHasEnd(root)}
	derivs := m.accepting(root, argv)
	if m.outside {
		vCover("outside-claim-4.5")
		return
	}
	vAssert(!out.panicked, "Run panicked on a well-formed spec")
	vAssert(out.ran <= 1, "Action ran more than once")
	vAssert((out.err == nil) == (out.ran == 1), "error value and Action disagree")

	refAccept := false
	for _, d := range derivs {
		if okc, _, _ := rFlagsParse(d); okc {
			refAccept = true
		}
	}
	vObserve("ref.accept", refAccept)
	if out.ran == 1 {
		vCover("accepted")
	} else {
		vCover("rejected")
	}
	if (out.ran == 1) != refAccept {
		if check != "C01" && check != "C09" {
			return // acceptance is C01's assertion
		}
		if out.ran == 0 && len(argv) > 0 && argv[len(argv)-1] == "--" && vKnownFinding("F1") {
			vCover("KNOWN:F1")
			return
		}
		vAssert(false, "C01: Action ran iff reference accepts: violated")
	}
	if out.ran != 1 || (check != "C02" && check != "C09") {
		return
	}
	// a parameter without command-line values keeps its declared default
	dflt := func(vs []string) []string {
		if len(vs) == 0 && shared {
			return []string{"p", "q"}
		}
		return vs
	}
	// C02: the bound values are those of one accepting derivation
	found := false
	for _, d := range derivs {
		okc, a, b := rFlagsParse(d)
		if !okc {
			continue
		}
		if out.a == a && out.b == b && vEqStrs(out.o, dflt(d.opts[oO])) && vEqStrs(out.e, dflt(d.opts[oE])) &&
			vEqStrs(out.x, dflt(d.args[0])) && vEqStrs(out.y, dflt(d.args[1])) {
			found = true
			break
		}
	}
	if len(derivs) > 1 {
		vCover("ambiguous")
	}
	vAssert(found, "C02: bound values are not those of any accepting derivation")
	if shared {
		vAssert(vEqStrs(vSharedDefault, []string{"p", "q"}), "C02: the library wrote through a default slice it was given")
	}
}
