package cli

// C16: a command without a spec behaves like the same command with the explicit spec
// `[OPTIONS] ARG1 ARG2 ...` and shows that spec in its usage line.

import (
	"flag"
	"strings"
)

func init() {
	vRegister("H_defspec", H_defspec)
}

func H_defspec() {
	nopt := vParamInt("nopt") // 0..2 of {a (flag), o (valued)}
	narg := vParamInt("narg") // 0..2 of {X, Y}
	swap := vParamInt("swap") // 1: declare o before... (order is fixed by the table; swap picks {o} instead of {a} for nopt=1)
	mask := 0
	switch nopt {
	case 1:
		if swap == 1 {
			mask |= 4
		} else {
			mask |= 1
		}
	case 2:
		mask |= 1 | 4
	}
	switch narg {
	case 1:
		if swap == 1 {
			mask |= 32
		} else {
			mask |= 16
		}
	case 2:
		mask |= 16 | 32
	}
	// the explicit spec, built here from the declared names in declaration order
	var parts []string
	if nopt > 0 {
		parts = append(parts, "[OPTIONS]")
	}
	if mask&16 != 0 {
		parts = append(parts, "X")
	}
	if mask&32 != 0 {
		parts = append(parts, "Y")
	}
	explicit := strings.Join(parts, " ")
	if mask == 0 {
		mask = 64 // nothing declared (a bit outside 0..5 keeps "0 = everything" from applying)
	}
	argv := vArgvFor(vParamString("profile"))
	vNoHelp(argv)
	implicit := vRunTable(vAppCfg{spec: "", declMask: mask, policy: flag.ContinueOnError, wantHelp: true}, argv)
	var expl vOutcome
	if explicit == "" {
		expl = implicit // the explicit spec of an empty declaration set is the empty spec itself
	} else {
		expl = vRunTable(vAppCfg{spec: explicit, declMask: mask, policy: flag.ContinueOnError, wantHelp: true}, argv)
	}
	vObserveOutcome("implicit", implicit)
	vObserveOutcome("explicit", expl)
	if implicit.ran == 1 {
		vCover("accepted")
	} else {
		vCover("rejected")
	}
	vAssert(!implicit.panicked && !expl.panicked, "Run panicked")
	vAssert(vSameOutcome(implicit, expl), "C16: a spec-less command behaves differently from the explicit `[OPTIONS] ARG...` spec")
	want := "\nUsage: app"
	if explicit != "" {
		want += " " + explicit
	}
	want += "\n\n"
	vAssert(strings.HasPrefix(implicit.help, want), "C16: the usage line of a spec-less command does not show `[OPTIONS] ARG...`")
	vAssert(strings.HasPrefix(expl.help, want), "C16: usage line of the explicit variant")
}
