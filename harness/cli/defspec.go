package cli

// C16: a command without a spec behaves like the same command with the explicit spec
// `[OPTIONS] ARG1 ARG2 ...` and shows that spec in its usage line.

import (
	"flag"
	"strings"
)

func init() {
	vRegister("H_defspec", H_defspec)
	vRegister("H_defspec_names", H_defspec_names)
}

// vNamePairs: argument names that contain one another or are contained in the
// `[OPTIONS]` prefix of the synthesised spec.
var vNamePairs = [][2]string{{"XY", "X"}, {"X", "XY"}, {"OPT", "ION"}, {"FILES", "FILE"}, {"S", "OPTIONS_"}, {"A_1", "A"}}

// H_defspec_names: the synthesised spec lists every argument, in declaration order,
// whatever the names look like.
func H_defspec_names() {
	pair := vNamePairs[vParamInt("pair")]
	withOpt := vParamInt("withopt") >= 1
	hideValue := vParamInt("withopt") == 2 // the only option is declared with HideValue (its default is not shown in the help)
	argv := vArgvFor(vParamString("profile"))
	vNoHelp(argv)
	explicit := pair[0] + " " + pair[1]
	if withOpt {
		explicit = "[OPTIONS] " + explicit
	}
	type res struct {
		ran      int
		err      bool
		panicked bool
		a        bool
		x, y     []string
		help     string
	}
	run := func(spec string) (r res) {
		buf := &vBuf{}
		stdErr = buf
		stdOut = vDiscard{}
		exiter = func(code int) { panic(vExitPanic{code}) }
		app := App("app", "")
		app.ErrorHandling = flag.ContinueOnError
		app.Spec = spec
		var a *bool
		if withOpt {
			if vParamInt("withopt") == 3 {
				// an option without any name (settable through its environment variable only) is an option
				a = app.Bool(BoolOpt{Name: " ", EnvVar: "VN"})
			} else {
				a = app.Bool(BoolOpt{Name: "a aa", HideValue: hideValue})
			}
		}
		x := app.Strings(StringsArg{Name: pair[0]})
		y := app.Strings(StringsArg{Name: pair[1]})
		app.Action = func() {
			r.ran++
			if a != nil {
				r.a = *a
			}
			r.x = append([]string(nil), *x...)
			r.y = append([]string(nil), *y...)
		}
		func() {
			defer func() {
				if p := recover(); p != nil {
					r.panicked = true
				}
			}()
			if e := app.doInit(); e != nil {
				panic(e)
			}
			app.PrintHelp()
			r.help = buf.s
			stdErr = vDiscard{}
			r.err = app.Run(append([]string{"app"}, argv...)) != nil
		}()
		return
	}
	implicit := run("")
	expl := run(explicit)
	vObserve("implicit.ran", implicit.ran)
	vObserve("explicit.ran", expl.ran)
	vAssert(!implicit.panicked && !expl.panicked, "Run panicked")
	vAssert(implicit.ran == expl.ran && implicit.err == expl.err, "C16: a spec-less command accepts a different set of command lines than `[OPTIONS] ARG...`")
	if implicit.ran == 1 {
		vCover("accepted")
		vAssert(implicit.a == expl.a && vEqStrs(implicit.x, expl.x) && vEqStrs(implicit.y, expl.y), "C16: a spec-less command binds different values than `[OPTIONS] ARG...`")
	}
	want := "\nUsage: app " + explicit + "\n\n"
	vAssert(strings.HasPrefix(implicit.help, want), "C16: the usage line of a spec-less command does not list every argument in declaration order")
}

func H_defspec() {
	nopt := vParamInt("nopt") // 0..2 of {a (flag), o (valued)}
	narg := vParamInt("narg") // 0..2 of {X, Y}
	swap := vParamInt("swap") // 1: declare o before... (order is fixed by the table; swap picks {o} instead of {a} for nopt=1)
	mask := 0
	switch nopt {
	case 1:
		if swap == 1 {
			mask |= 4
		} else {
			mask |= 1
		}
	case 2:
		mask |= 1 | 4
	}
	switch narg {
	case 1:
		if swap == 1 {
			mask |= 32
		} else {
			mask |= 16
		}
	case 2:
		mask |= 16 | 32
	}
	// the explicit spec, built here from the declared names in declaration order
	var parts []string
	if nopt > 0 {
		parts = append(parts, "[OPTIONS]")
	}
	if mask&16 != 0 {
		parts = append(parts, "X")
	}
	if mask&32 != 0 {
		parts = append(parts, "Y")
	}
	explicit := strings.Join(parts, " ")
	if mask == 0 {
		mask = 64 // nothing declared (a bit outside 0..5 keeps "0 = everything" from applying)
	}
	argv := vArgvFor(vParamString("profile"))
	vNoHelp(argv)
	withEnv := vParamInt("env") == 1
	if withEnv {
		// every declared option and argument is backed by an environment variable; a
		// symbolic subset of them is set
		vEnvCandidates = 15
		vSymbolicEnv()
		if vNondetBool("env.VX") {
			vSetenv("VX", "ex")
		}
		if vNondetBool("env.VY") {
			vSetenv("VY", "ey")
		}
	}
	argsFirst := vParamInt("argsFirst") == 1 // arguments declared before the options
	withSub := vParamInt("withSub") == 1     // the command also has a sub-command
	implApp := vBuildTable(vAppCfg{spec: "", declMask: mask, policy: flag.ContinueOnError, wantHelp: true, envAll: withEnv, argEnv: withEnv, argsFirst: argsFirst, withSub: withSub})
	implicit := implApp.run(append([]string{"app"}, argv...))
	// the same application object parses a second command line like the first one
	again := implApp.run(append([]string{"app"}, argv...))
	vAssert(vSameOutcome(implicit, again), "C16: running the same spec-less application a second time gives another outcome")
	var expl vOutcome
	if explicit == "" {
		expl = implicit // the explicit spec of an empty declaration set is the empty spec itself
	} else {
		expl = vRunTable(vAppCfg{spec: explicit, declMask: mask, policy: flag.ContinueOnError, wantHelp: true, envAll: withEnv, argEnv: withEnv, argsFirst: argsFirst, withSub: withSub}, argv)
	}
	vObserveOutcome("implicit", implicit)
	vObserveOutcome("explicit", expl)
	if implicit.ran == 1 {
		vCover("accepted")
	} else {
		vCover("rejected")
	}
	vAssert(!implicit.panicked && !expl.panicked, "Run panicked")
	vAssert(vSameOutcome(implicit, expl), "C16: a spec-less command behaves differently from the explicit `[OPTIONS] ARG...` spec")
	want := "\nUsage: app"
	if explicit != "" {
		want += " " + explicit
	}
	if withSub {
		want += " COMMAND [arg...]"
		for _, t := range argv {
			vAssume(t != "k") // (routing to the sub-command is C04's business)
		}
	}
	want += "\n\n"
	vAssert(strings.HasPrefix(implicit.help, want), "C16: the usage line of a spec-less command does not show `[OPTIONS] ARG...`")
	vAssert(strings.HasPrefix(expl.help, want), "C16: usage line of the explicit variant")
}
