package cli

// C17: the help of a command lists exactly what was declared, in the documented
// order. The output (tabwriter is a pass-through in the engine, real natively) is
// compared line by line after whitespace normalisation with the sequence computed
// from the declarations.

import (
	"flag"
	"strings"
)

func init() {
	vRegister("H_helptext", H_helptext)
}

// vLowerBytes: a symbolic description word of 1..n lower-case letters.
func vWord(tag string, n int) string {
	s := vNondetString(tag, n)
	vAssume(len(s) > 0)
	for i := 0; i < len(s); i++ {
		vAssume(s[i] >= 'a')
		vAssume(s[i] <= 'z')
	}
	return s
}

// vDesc: one word, or two lines of one word each.
func vDesc(tag string, n int) string {
	if vChoice(tag+".lines", 2) == 1 {
		return vWord(tag, n) + "\n" + vWord(tag, n)
	}
	return vWord(tag, n)
}

// vNormLines: lines with runs of blanks collapsed, trimmed, empty lines dropped.
func vNormLines(s string) []string {
	var out []string
	cur := ""
	pendingBlank := false
	flush := func() {
		if cur != "" {
			out = append(out, cur)
		}
		cur = ""
		pendingBlank = false
	}
	for i := 0; i < len(s); i++ {
		c := s[i]
		switch {
		case c == '\n':
			flush()
		case c == ' ' || c == '\t':
			pendingBlank = true
		default:
			if pendingBlank && cur != "" {
				cur += " "
			}
			pendingBlank = false
			cur += s[i : i+1]
		}
	}
	flush()
	return out
}

func vEnvText(env string) string {
	names := vSplitBlanks(env)
	if len(names) == 0 {
		return ""
	}
	s := "(env"
	for i, n := range names {
		if i > 0 {
			s += ","
		}
		s += " $" + n
	}
	return s + ")"
}

// vRowLines: the lines of one table row: name column, then description + env + default.
func vRowLines(name, desc, env, def string, hide bool) []string {
	text := desc
	if e := vEnvText(env); e != "" {
		if text != "" {
			text += " "
		}
		text += e
	}
	if !hide && def != "" {
		if text != "" {
			text += " "
		}
		text += "(default " + def + ")"
	}
	var out []string
	for i, l := range strings.Split(text, "\n") {
		line := ""
		if i == 0 {
			line = name
		}
		l = vTrim(l)
		if l != "" {
			if line != "" {
				line += " "
			}
			line += l
		}
		if line != "" {
			out = append(out, line)
		}
	}
	return out
}

// custom values in the help: the default shown is String(), unless the type has
// IsDefault() and it answers true
type vHV struct {
	text  string
	isDef bool
}

func (v *vHV) String() string     { return v.text }
func (v *vHV) Set(s string) error { v.text = s; return nil }

type vHV00 struct{ vHV }
type vHV10 struct{ vHV } // IsBoolFlag
type vHV01 struct{ vHV } // IsDefault
type vHV11 struct{ vHV }

func (v *vHV10) IsBoolFlag() bool { return true }
func (v *vHV11) IsBoolFlag() bool { return true }
func (v *vHV01) IsDefault() bool  { return v.isDef }
func (v *vHV11) IsDefault() bool  { return v.isDef }

// vMkHV: a custom value of symbolic shape and the default text its help row must show.
func vMkHV(tag string) (flag.Value, string) {
	text := []string{"false", "true", "x", ""}[vChoice(tag+".text", 4)]
	switch vChoice(tag+".shape", 6) {
	case 0:
		return &vHV00{vHV{text: text}}, text
	case 1:
		return &vHV10{vHV{text: text}}, text
	case 2:
		return &vHV01{vHV{text: text}}, text
	case 3:
		return &vHV01{vHV{text: text, isDef: true}}, ""
	case 4:
		return &vHV11{vHV{text: text}}, text
	}
	return &vHV11{vHV{text: text, isDef: true}}, ""
}

func H_helptext() {
	wl := vParamInt("wordLen")
	depth := vParamInt("depth") // 0: root command, 1: sub-command "c" of app
	buf := &vBuf{}
	stdErr = buf
	stdOut = vDiscard{}
	var want []string

	desc := vWord("desc", wl)
	if vChoice("emptydesc", 2) == 1 {
		desc = "" // a command may have no short description
	}
	long := ""
	if vChoice("haslong", 2) == 1 {
		long = vDesc("long", wl)
	}
	useLong := vChoice("longhelp", 2) == 1

	type optD struct {
		names, show string
	}
	optPool := []optD{
		{"f", "-f"}, {"force", "--force"}, {"o out", "-o, --out"}, {"q p", "-q"}, {"long-a long-b", "--long-a"}, {"vv v w", "-v, --vv"},
	}
	// (description lines, environment list, HideValue) variants of a declaration
	variant := func(tag string) (string, string, bool) {
		switch vChoice(tag+".variant", 5) {
		case 0:
			return vWord(tag+"desc", wl), "", false
		case 1:
			return vWord(tag+"desc", wl) + "\n" + vWord(tag+"desc", wl), "AE", false
		case 2:
			return vWord(tag+"desc", wl), "AE BE", true
		case 3:
			return vWord(tag+"desc", wl), "AE  BE\tCE", false // names separated by several blanks / a tab
		}
		return vWord(tag+"desc", wl), "", true
	}

	withVersion := vParamInt("version") == 1 && depth == 0 // the application's version flag is an option like the others
	var build func(c *Cmd)
	var expectBody []string
	build = func(c *Cmd) {
		c.LongDesc = long
		// arguments
		var argLines []string
		narg := vParamInt("nargs")
		specParts := []string{}
		if narg >= 1 {
			d, env, hide := variant("arg")
			c.String(StringArg{Name: "SRC", Desc: d, EnvVar: env, Value: "100%d", HideValue: hide})
			argLines = append(argLines, vRowLines("SRC", d, env, "\"100%d\"", hide)...)
			specParts = append(specParts, "SRC")
		}
		if narg >= 2 {
			d := vWord("argdesc", wl)
			c.Strings(StringsArg{Name: "DST", Desc: d, Value: []string{"p", "q"}})
			argLines = append(argLines, vRowLines("DST", d, "", "[\"p\", \"q\"]", false)...)
			specParts = append(specParts, "DST")
		}
		if narg >= 3 {
			// a non-empty default made of blanks is still a default to show
			d := vWord("argdesc", wl)
			c.String(StringArg{Name: "PAD", Desc: d, Value: " "})
			argLines = append(argLines, vRowLines("PAD", d, "", "\" \"", false)...)
			specParts = append(specParts, "PAD")
		}
		custom := vParamInt("custom") == 1
		if custom {
			d := vWord("argdesc", wl)
			v, def := vMkHV("cvarg")
			c.Var(VarArg{Name: "CV", Desc: d, Value: v})
			argLines = append(argLines, vRowLines("CV", d, "", def, false)...)
			specParts = append(specParts, "CV")
		}
		// options: up to 3 from the pool, types and defaults of every kind
		var optLines []string
		if withVersion {
			// declared first (before build): listed first
			optLines = append(optLines, "-V, --version Show the version and exit")
		}
		nopt := vParamInt("nopts")
		first := vParamInt("firstopt")
		for i := 0; i < nopt; i++ {
			od := optPool[first+i]
			d, env, hide := variant("opt")
			def := ""
			switch i {
			case 0:
				c.Bool(BoolOpt{Name: od.names, Desc: d, EnvVar: env, Value: true, HideValue: hide})
				def = "true"
			case 1:
				c.Int(IntOpt{Name: od.names, Desc: d, EnvVar: env, Value: 42, HideValue: hide})
				def = "42"
			case 2:
				if first%2 == 1 {
					// float lists are shown with every digit that was declared
					c.Floats64(Floats64Opt{Name: od.names, Desc: d, EnvVar: env, Value: []float64{0.75, 3.14159265358979, 16777217}, HideValue: hide})
					def = "[0.75, 3.14159265358979, 1.6777217e+07]"
				} else {
					c.Ints(IntsOpt{Name: od.names, Desc: d, EnvVar: env, Value: []int{1, 2}, HideValue: hide})
					def = "[1, 2]"
				}
			}
			optLines = append(optLines, vRowLines(od.show, d, env, def, hide)...)
		}
		if custom {
			d := vWord("optdesc", wl)
			v, def := vMkHV("cvopt")
			c.Var(VarOpt{Name: "c cv", Desc: d, Value: v})
			optLines = append(optLines, vRowLines("-c, --cv", d, "", def, false)...)
		}
		if nopt > 0 || custom || withVersion {
			specParts = append([]string{"[OPTIONS]"}, specParts...)
		}
		// sub-commands
		type kid struct {
			names, show string
		}
		kidPool := []kid{{"k kk kkk", "k, kk, kkk"}, {"m", "m"}, {"n nn", "n, nn"}}
		nk := vParamInt("nkids")
		var kidLines []string
		for i := 0; i < nk; i++ {
			kd := kidPool[i]
			d := vWord("kiddesc", wl)
			hidden := vChoice("hidden", 2) == 1
			c.Command(kd.names, d, func(cc *Cmd) {
				if hidden {
					cc.Hidden = true // (never written otherwise: a command is visible unless it says so itself)
				}
			})
			if !hidden {
				kidLines = append(kidLines, kd.show+" "+d)
			}
		}
		// expected body
		if len(argLines) > 0 {
			expectBody = append(expectBody, "Arguments:")
			expectBody = append(expectBody, argLines...)
		}
		if len(optLines) > 0 {
			expectBody = append(expectBody, "Options:")
			expectBody = append(expectBody, optLines...)
		}
		path := "app"
		if depth == 1 {
			path = "app c"
		}
		if len(kidLines) > 0 {
			expectBody = append(expectBody, "Commands:")
			expectBody = append(expectBody, kidLines...)
			expectBody = append(expectBody, "Run '"+path+" COMMAND --help' for more information on a command.")
		}
		usage := "Usage: " + path
		if len(specParts) > 0 {
			usage += " " + strings.Join(specParts, " ")
		}
		if nk > 0 {
			usage += " COMMAND [arg...]"
		}
		want = append(want, usage)
	}

	app := App("app", desc)
	if withVersion {
		app.Version("V version", "1.2")
	}
	var target *Cmd
	if depth == 0 {
		build(app.Cmd)
		target = app.Cmd
	} else {
		hiddenParent := vChoice("hiddenparent", 2) == 1 // a hidden command's own help still lists its sub-commands
		app.Command("c", desc, func(c *Cmd) { c.Hidden = hiddenParent; build(c); target = c })
	}
	var rec interface{}
	func() {
		defer func() { rec = recover() }()
		if err := app.doInit(); err != nil {
			panic(err)
		}
		if depth == 1 {
			if err := app.commands[0].doInit(); err != nil {
				panic(err)
			}
		}
		if useLong {
			target.PrintLongHelp()
		} else {
			target.PrintHelp()
		}
	}()
	vAssert(rec == nil, "printing help panicked")
	// asking for the same help again shows the same text (printing changes no declaration)
	first := buf.s
	buf.s = ""
	func() {
		defer func() { rec = recover() }()
		if useLong {
			target.PrintLongHelp()
		} else {
			target.PrintHelp()
		}
	}()
	vAssert(rec == nil, "printing help panicked")
	vAssert(buf.s == first, "C17: printing the help of a command a second time shows a different text")
	buf.s = first
	shown := desc
	if useLong && long != "" {
		shown = long
	}
	if shown != "" {
		for _, l := range strings.Split(shown, "\n") {
			want = append(want, l)
		}
	}
	want = append(want, expectBody...)
	got := vNormLines(buf.s)
	vObserve("lines", len(got))
	vAssert(len(got) == len(want), "C17: help shows a different number of lines than what was declared")
	for i := range got {
		vAssert(got[i] == want[i], "C17: a help line differs from the declaration (content or order)")
	}
	vCover("checked")
}
