package cli

// Reference semantics of DESIGN.md section 4: what language a spec denotes and which
// bindings an accepted command line has. Written independently of the
// implementation: whole tokens are read into occurrence lists, the spec is an AST,
// matching computes the set of reachable configurations.

// ---------------------------------------------------------------------------------
// spec AST

const (
	nArg = iota
	nOpt
	nGroup
	nEnd
	nSeq
	nChoice
	nOptional
	nRep
)

type rNode struct {
	kind  int
	arg   int   // nArg: 0 = X, 1 = Y
	opt   int   // nOpt
	group []int // nGroup
	kids  []*rNode
}

// spec tokens of the reference reader
const (
	stArg = iota
	stOptions
	stShort
	stLong
	stSeq
	stOpenPar
	stClosePar
	stOpenSq
	stCloseSq
	stChoice
	stRep
	stEnd
	stVal
)

type rSpecTok struct {
	typ  int
	text string
}

func rIsLetter(c byte) bool { return c >= 'a' && c <= 'z' || c >= 'A' && c <= 'Z' }
func rIsUpper(c byte) bool  { return c >= 'A' && c <= 'Z' }
func rIsDigit(c byte) bool  { return c >= '0' && c <= '9' }

// rSpecLex reads a (concrete) spec string; ok=false on a lexical error.
func rSpecLex(s string) (toks []rSpecTok, ok bool) {
	for i := 0; i < len(s); {
		c := s[i]
		switch {
		case c == ' ' || c == '\t':
			i++
		case c == '(':
			toks = append(toks, rSpecTok{stOpenPar, "("})
			i++
		case c == ')':
			toks = append(toks, rSpecTok{stClosePar, ")"})
			i++
		case c == '[':
			toks = append(toks, rSpecTok{stOpenSq, "["})
			i++
		case c == ']':
			toks = append(toks, rSpecTok{stCloseSq, "]"})
			i++
		case c == '|':
			toks = append(toks, rSpecTok{stChoice, "|"})
			i++
		case c == '.':
			if i+2 < len(s) && s[i+1] == '.' && s[i+2] == '.' {
				toks = append(toks, rSpecTok{stRep, "..."})
				i += 3
			} else {
				return nil, false
			}
		case c == '=':
			if i+1 >= len(s) || s[i+1] != '<' {
				return nil, false
			}
			j := i + 2
			for j < len(s) && s[j] != '>' {
				j++
			}
			if j >= len(s) || j == i+2 {
				return nil, false
			}
			toks = append(toks, rSpecTok{stVal, s[i : j+1]})
			i = j + 1
		case c == '-' && i+1 < len(s) && s[i+1] == '-':
			j := i + 2
			if j == len(s) || s[j] == ' ' || s[j] == '\t' {
				toks = append(toks, rSpecTok{stEnd, "--"})
				i = j
				continue
			}
			if !(rIsLetter(s[j]) || rIsDigit(s[j]) || s[j] == '_') {
				return nil, false
			}
			for j < len(s) && (rIsLetter(s[j]) || rIsDigit(s[j]) || s[j] == '_' || s[j] == '-') {
				j++
			}
			toks = append(toks, rSpecTok{stLong, s[i+2 : j]})
			i = j
		case c == '-':
			j := i + 1
			for j < len(s) && rIsLetter(s[j]) {
				j++
			}
			if j == i+1 {
				return nil, false
			}
			if j < len(s) && s[j] == '-' {
				return nil, false
			}
			if j-i == 2 {
				toks = append(toks, rSpecTok{stShort, s[i+1 : j]})
			} else {
				toks = append(toks, rSpecTok{stSeq, s[i+1 : j]})
			}
			i = j
		case rIsUpper(c):
			j := i + 1
			for j < len(s) && (rIsUpper(s[j]) || rIsDigit(s[j]) || s[j] == '_') {
				j++
			}
			if s[i:j] == "OPTIONS" {
				toks = append(toks, rSpecTok{stOptions, "OPTIONS"})
			} else {
				toks = append(toks, rSpecTok{stArg, s[i:j]})
			}
			i = j
		default:
			return nil, false
		}
	}
	return toks, true
}

type rSpecParser struct {
	ts      []rSpecTok
	pos     int
	bad     bool
	seenEnd bool
}

func (p *rSpecParser) peek() int {
	if p.pos >= len(p.ts) {
		return -1
	}
	return p.ts[p.pos].typ
}

func (p *rSpecParser) startsItem() bool {
	switch p.peek() {
	case stArg, stOptions, stShort, stLong, stSeq, stOpenPar, stOpenSq, stEnd:
		return true
	}
	return false
}

// seq ::= item*   (atLeastOne: item+)
func (p *rSpecParser) seq(atLeastOne bool) *rNode {
	n := &rNode{kind: nSeq}
	for p.startsItem() && !p.bad {
		n.kids = append(n.kids, p.item())
	}
	if atLeastOne && len(n.kids) == 0 {
		p.bad = true
	}
	return n
}

// item ::= unit ('|' unit)*
func (p *rSpecParser) item() *rNode {
	first := p.unit()
	if p.peek() != stChoice {
		return first
	}
	n := &rNode{kind: nChoice, kids: []*rNode{first}}
	for p.peek() == stChoice && !p.bad {
		p.pos++
		n.kids = append(n.kids, p.unit())
	}
	return n
}

// unit ::= END | core REP?
func (p *rSpecParser) unit() *rNode {
	if p.bad {
		return &rNode{kind: nSeq}
	}
	var core *rNode
	switch p.peek() {
	case stEnd:
		p.pos++
		p.seenEnd = true
		return &rNode{kind: nEnd}
	case stArg:
		name := p.ts[p.pos].text
		p.pos++
		switch name {
		case "X":
			core = &rNode{kind: nArg, arg: 0}
		case "Y":
			core = &rNode{kind: nArg, arg: 1}
		default:
			p.bad = true
			return &rNode{kind: nSeq}
		}
	case stOptions:
		p.pos++
		if p.seenEnd {
			p.bad = true
		}
		core = &rNode{kind: nGroup, group: []int{oA, oB, oO, oE}}
	case stShort:
		o := vByShort(p.ts[p.pos].text[0])
		p.pos++
		if o < 0 || p.seenEnd {
			p.bad = true
			return &rNode{kind: nSeq}
		}
		core = &rNode{kind: nOpt, opt: o}
		if p.peek() == stVal {
			p.pos++
		}
	case stLong:
		o := vByLong(p.ts[p.pos].text)
		p.pos++
		if o < 0 || p.seenEnd {
			p.bad = true
			return &rNode{kind: nSeq}
		}
		core = &rNode{kind: nOpt, opt: o}
		if p.peek() == stVal {
			p.pos++
		}
	case stSeq:
		txt := p.ts[p.pos].text
		p.pos++
		g := &rNode{kind: nGroup}
		for i := 0; i < len(txt); i++ {
			o := vByShort(txt[i])
			if o < 0 {
				p.bad = true
				return &rNode{kind: nSeq}
			}
			g.group = append(g.group, o)
		}
		if p.seenEnd {
			p.bad = true
		}
		core = g
	case stOpenPar:
		p.pos++
		core = p.seq(true)
		if p.peek() != stClosePar {
			p.bad = true
			return core
		}
		p.pos++
	case stOpenSq:
		p.pos++
		body := p.seq(true)
		if p.peek() != stCloseSq {
			p.bad = true
			return body
		}
		p.pos++
		core = &rNode{kind: nOptional, kids: []*rNode{body}}
	default:
		p.bad = true
		return &rNode{kind: nSeq}
	}
	if p.peek() == stRep {
		p.pos++
		core = &rNode{kind: nRep, kids: []*rNode{core}}
	}
	return core
}

// rParseSpec returns the AST of a well-formed spec over the declaration table.
func rParseSpec(spec string) (*rNode, bool) {
	toks, ok := rSpecLex(spec)
	if !ok {
		return nil, false
	}
	p := &rSpecParser{ts: toks}
	n := p.seq(false)
	if p.bad || p.pos != len(toks) {
		return nil, false
	}
	return n, true
}

// ---------------------------------------------------------------------------------
// reading command-line tokens (DESIGN 4.2)

const (
	cPos = iota
	cDash
	cEnd
	cOpts
	cBad
)

type rOcc struct {
	opt      int
	val      string
	from, to int // byte span inside the token
	width    int // 1, or 2 when the value is the next token
}

func rHasDashPrefix(t string) bool { return len(t) > 0 && t[0] == '-' }

// rRead classifies token t (next = following token, if any). For a BAD token,
// skippable reports whether it is one of the malformed shapes the implementation's
// per-option scan steps over instead of stopping at (DESIGN 4.5): `--name=` with a
// declared name, `-x=` / `-z=v` with an empty value or an undeclared letter, a valued
// option written separately whose next token starts with a dash, a fold whose
// malformed part comes after declared flags.
func rRead(t, next string, hasNext bool) (kind int, occs []rOcc, skippable bool) {
	if t == "-" {
		return cDash, nil, false
	}
	if t == "--" {
		return cEnd, nil, false
	}
	if len(t) >= 2 && t[0] == '-' && t[1] == '-' {
		eq := -1
		for i := 2; i < len(t); i++ {
			if t[i] == '=' {
				eq = i
				break
			}
		}
		name := t[2:]
		if eq >= 0 {
			name = t[2:eq]
		}
		o := vByLong(name)
		if o < 0 {
			return cBad, nil, false
		}
		if eq >= 0 {
			if eq == len(t)-1 {
				return cBad, nil, true
			}
			return cOpts, []rOcc{{o, t[eq+1:], 0, len(t), 1}}, false
		}
		if vOptTable[o].flag {
			return cOpts, []rOcc{{o, "true", 0, len(t), 1}}, false
		}
		if !hasNext {
			return cBad, nil, false
		}
		if rHasDashPrefix(next) {
			return cBad, nil, true
		}
		return cOpts, []rOcc{{o, next, 0, len(t), 2}}, false
	}
	if rHasDashPrefix(t) {
		if len(t) >= 3 && t[2] == '=' {
			o := vByShort(t[1])
			if o < 0 || len(t) == 3 {
				return cBad, nil, true
			}
			return cOpts, []rOcc{{o, t[3:], 0, len(t), 1}}, false
		}
		for i := 1; i < len(t); i++ {
			o := vByShort(t[i])
			if o < 0 {
				return cBad, nil, i > 1 // flags before the undeclared letter can still be taken out
			}
			if vOptTable[o].flag {
				occs = append(occs, rOcc{o, "true", i, i + 1, 1})
				continue
			}
			if i+1 < len(t) {
				return cOpts, append(occs, rOcc{o, t[i+1:], i, len(t), 1}), false
			}
			if !hasNext {
				return cBad, nil, i > 1
			}
			if rHasDashPrefix(next) {
				return cBad, nil, true
			}
			return cOpts, append(occs, rOcc{o, next, i, len(t), 2}), false
		}
		return cOpts, occs, false
	}
	return cPos, nil, false
}

// ---------------------------------------------------------------------------------
// configurations and matching

type rBind struct {
	opts [nOpts][]string
	args [2][]string
}

func (b rBind) withOpt(o int, v string) rBind {
	b.opts[o] = append(append([]string(nil), b.opts[o]...), v)
	return b
}

func (b rBind) withArg(a int, v string) rBind {
	b.args[a] = append(append([]string(nil), b.args[a]...), v)
	return b
}

type rCfg struct {
	pos bool
	ts  []string
	b   rBind
	sig string // concrete signature of (remaining tokens, bindings) used to de-duplicate
}

type rMatcher struct {
	strictDash bool // a lone '-' ends an option run (DESIGN 4.6)
	envSet     [nOpts]bool
	outside    bool // the derivation search met a case excluded by DESIGN 4.5
	hasEnd     bool
	steps      int
}

func rItoa(i int) string {
	if i == 0 {
		return "0"
	}
	s := ""
	for i > 0 {
		s = string([]byte{byte('0' + i%10)}) + s
		i /= 10
	}
	return s
}

func (m *rMatcher) norm(c rCfg) rCfg {
	if !c.pos && len(c.ts) > 0 && c.ts[0] == "--" {
		return rCfg{true, c.ts[1:], c.b, c.sig + "N"}
	}
	return c
}

// extract finds the first occurrence of option o in the leading option run.
func (m *rMatcher) extract(o int, ts []string) (val string, rest []string, ok bool, sig string) {
	for i := 0; i < len(ts); {
		next, hasNext := "", i+1 < len(ts)
		if hasNext {
			next = ts[i+1]
		}
		k, occs, begins := rRead(ts[i], next, hasNext)
		if k == cDash && !m.strictDash {
			i++
			continue
		}
		if k != cOpts {
			if k == cBad && begins && m.hasEnd {
				m.outside = true
			}
			return "", nil, false, ""
		}
		width := 1
		for _, oc := range occs {
			if oc.width == 2 {
				width = 2
			}
			if oc.opt == o {
				nt := ts[i][:oc.from] + ts[i][oc.to:]
				rest = append(rest, ts[:i]...)
				if nt != "-" && nt != "" {
					rest = append(rest, nt)
				}
				rest = append(rest, ts[i+oc.width:]...)
				return oc.val, rest, true, "x" + rItoa(i) + "." + rItoa(oc.from) + "." + rItoa(oc.to)
			}
		}
		i += width
	}
	return "", nil, false, ""
}

func (m *rMatcher) match(n *rNode, c rCfg) []rCfg {
	m.steps++
	switch n.kind {
	case nArg:
		c = m.norm(c)
		if len(c.ts) == 0 {
			return nil
		}
		t := c.ts[0]
		if !c.pos && rHasDashPrefix(t) && t != "-" {
			return nil
		}
		return []rCfg{{c.pos, c.ts[1:], c.b.withArg(n.arg, t), c.sig + "A" + rItoa(n.arg)}}
	case nEnd:
		c = m.norm(c)
		if !c.pos && len(c.ts) > 0 {
			next, hasNext := "", len(c.ts) > 1
			if hasNext {
				next = c.ts[1]
			}
			if k, _, _ := rRead(c.ts[0], next, hasNext); k == cOpts {
				m.outside = true
			}
		}
		return []rCfg{{true, c.ts, c.b, c.sig + "E"}}
	case nOpt:
		c = m.norm(c)
		if c.pos {
			if m.envSet[n.opt] {
				return []rCfg{c}
			}
			return nil
		}
		v, rest, ok, sg := m.extract(n.opt, c.ts)
		if !ok {
			if m.envSet[n.opt] {
				return []rCfg{c}
			}
			return nil
		}
		return []rCfg{{false, rest, c.b.withOpt(n.opt, v), c.sig + "O" + rItoa(n.opt) + sg}}
	case nGroup:
		c = m.norm(c)
		if c.pos {
			return nil
		}
		got := false
		for progress := true; progress; {
			progress = false
			for _, o := range n.group {
				if v, rest, ok, sg := m.extract(o, c.ts); ok {
					c = rCfg{false, rest, c.b.withOpt(o, v), c.sig + "G" + rItoa(o) + sg}
					progress, got = true, true
					break
				}
			}
		}
		if !got {
			return nil
		}
		return []rCfg{c}
	case nSeq:
		cur := []rCfg{c}
		for _, k := range n.kids {
			var nxt []rCfg
			for _, cc := range cur {
				nxt = rAddAll(nxt, m.match(k, cc))
			}
			cur = nxt
			if len(cur) == 0 {
				return nil
			}
		}
		return cur
	case nChoice:
		var out []rCfg
		for _, k := range n.kids {
			out = rAddAll(out, m.match(k, c))
		}
		return out
	case nOptional:
		return rAddAll([]rCfg{c}, m.match(n.kids[0], c))
	case nRep:
		var out []rCfg
		frontier := m.match(n.kids[0], c)
		out = rAddAll(out, frontier)
		for len(frontier) > 0 {
			var nf []rCfg
			for _, cc := range frontier {
				for _, r := range m.match(n.kids[0], cc) {
					// an iteration that consumes nothing adds nothing
					if len(r.ts) == len(cc.ts) && rBytes(r.ts) == rBytes(cc.ts) && r.pos == cc.pos {
						continue
					}
					before := len(out)
					out = rAddAll(out, []rCfg{r})
					if len(out) > before {
						nf = append(nf, r)
					}
				}
			}
			frontier = nf
		}
		return out
	}
	return nil
}

func rBytes(ts []string) int {
	n := 0
	for _, t := range ts {
		n += len(t)
	}
	return n
}

func rAddAll(dst []rCfg, src []rCfg) []rCfg {
	for _, s := range src {
		dup := false
		for _, d := range dst {
			if d.sig == s.sig && d.pos == s.pos && len(d.ts) == len(s.ts) {
				dup = true
				break
			}
		}
		if !dup {
			dst = append(dst, s)
		}
	}
	return dst
}

// rAccepting returns the bindings of all accepting derivations.
func (m *rMatcher) accepting(root *rNode, argv []string) []rBind {
	var out []rBind
	for _, c := range m.match(root, rCfg{ts: argv}) {
		c = m.norm(c)
		if len(c.ts) == 0 {
			out = append(out, c.b)
		}
	}
	return out
}

func rHasEnd(n *rNode) bool {
	if n.kind == nEnd {
		return true
	}
	for _, k := range n.kids {
		if rHasEnd(k) {
			return true
		}
	}
	return false
}
