package values

// Self-test harnesses of the engine: intrinsics on symbolic strings against the real
// functions (through native trace validation) and the vacuity twin.

import (
	"fmt"
	"strings"
)

func init() {
	vRegister("H_intrinsics", H_intrinsics)
	vRegister("H_twin_false", H_twin_false)
}

// H_intrinsics: every observation is computed by the engine's intrinsic on symbolic
// bytes and, in the native twin, by the real function on the solver's model.
func H_intrinsics() {
	s := vNondetString("s", vParamInt("L"))
	for i := 0; i < len(s); i++ {
		vAssume(s[i] < 0x80)
	}
	vObserve("hasprefix", strings.HasPrefix(s, "-"))
	vObserve("hassuffix", strings.HasSuffix(s, "="))
	vObserve("trimprefix", strings.TrimPrefix(s, "-"))
	vObserve("trimspace", strings.TrimSpace(s))
	vObserve("fields", strings.Fields(s))
	vObserve("split", strings.Split(s, ","))
	vObserve("splitn", strings.SplitN(s, "=", 2))
	vObserve("join", strings.Join([]string{s, "x", s}, ", "))
	vObserve("contains", strings.Contains(s, "a="))
	vObserve("index", strings.Index(s, "="))
	sepf := func(r rune) bool { return r == ' ' || r == ',' }
	vObserve("fieldsfunc", strings.FieldsFunc(s, sepf))
	vObserve("indexfunc", strings.IndexFunc(s, sepf))
	vObserve("trimfunc", strings.TrimFunc(s, sepf))
	vObserve("equalfold", strings.EqualFold(s, "Ab"))
	vObserve("tolower", strings.ToLower(s))
	vObserve("trim", strings.Trim(s, "-="))
	vObserve("count", strings.Count(s, "a"))
	vObserve("lastindex", strings.LastIndex(s, "="))
	vObserve("replace", strings.Replace(s, "a", "bb", -1))
	vObserve("sprintf", fmt.Sprintf("<%s|%v|%d>", s, s, len(s)))
	vObserve("less", s < "b")
	vObserve("concat", "-"+s+s[:len(s)/2])
	m := map[string]int{"a": 1, "-b": 2, "": 3}
	vObserve("lookup", m[s])
	n := 0
	for range s {
		n++
	}
	vObserve("runes", n)
}

// H_twin_false: reachability witness; its final assertion must be refuted.
func H_twin_false() {
	s := vNondetString("s", 2)
	if strings.HasPrefix(s, "-") {
		vCover("reached")
		vAssert(len(s) == 0, "twin: deliberately false")
	}
}
