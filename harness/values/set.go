package values

// C13 H_set: each Set method of the built-in value types accepts a token exactly
// when strconv accepts it (base 10, 64 bits; 64-bit float; ParseBool) and stores /
// appends exactly that parse; string types store the token byte for byte.

import (
	"math"
	"strconv"
)

func init() {
	vRegister("H_set", H_set)
}

func H_set() {
	t := vParamInt("type")
	tok := vNondetString("tok", vParamInt("L"))
	switch t {
	case 0: // bool
		var v bool = vNondetBool("old")
		old := v
		err := NewBool(&v, v).Set(tok)
		want, werr := strconv.ParseBool(tok)
		vObserve("err", err != nil)
		vAssert((err == nil) == (werr == nil), "C13: BoolValue.Set accepts a token iff strconv.ParseBool does")
		if werr == nil {
			vCover("parsed")
			vAssert(v == want, "C13: bool value differs from ParseBool")
		} else {
			vCover("rejected")
			vAssert(v == old, "C13: a rejected token modified the bool value")
		}
	case 1: // string
		var v string
		err := NewString(&v, "zz").Set(tok)
		vObserve("v", v)
		vAssert(err == nil && v == tok, "C13: string value is not the token byte for byte")
		vCover("parsed")
	case 2: // int
		v := vNondetInt("old", -1<<62, 1<<62)
		old := v
		err := NewInt(&v, v).Set(tok)
		want, werr := strconv.ParseInt(tok, 10, 64)
		vObserve("err", err != nil)
		vAssert((err == nil) == (werr == nil), "C13: IntValue.Set accepts a token iff strconv.ParseInt(tok, 10, 64) does")
		if werr == nil {
			vCover("parsed")
			vAssert(v == int(want), "C13: int value differs from ParseInt(tok, 10, 64)")
		} else {
			vCover("rejected")
			vAssert(v == old, "C13: a rejected token modified the int value")
		}
	case 3: // float64
		v := 2.5
		err := NewFloat64(&v, v).Set(tok)
		want, werr := strconv.ParseFloat(tok, 64)
		vObserve("err", err != nil)
		vAssert((err == nil) == (werr == nil), "C13: Float64Value.Set accepts a token iff strconv.ParseFloat(tok, 64) does")
		if werr == nil {
			vCover("parsed")
			vAssert(math.Float64bits(v) == math.Float64bits(want), "C13: float value differs from ParseFloat(tok, 64)")
		} else {
			vCover("rejected")
			vAssert(v == 2.5, "C13: a rejected token modified the float value")
		}
	case 4: // strings
		v := []string{"p"}
		err := NewStrings(&v, v).Set(tok)
		vAssert(err == nil && len(v) == 2 && v[0] == "p" && v[1] == tok, "C13: the token is not appended byte for byte")
		vCover("parsed")
	case 5: // ints
		first := vNondetInt("first", -1<<62, 1<<62)
		v := []int{first}
		err := NewInts(&v, v).Set(tok)
		want, werr := strconv.ParseInt(tok, 10, 64)
		vObserve("err", err != nil)
		vAssert((err == nil) == (werr == nil), "C13: IntsValue.Set accepts a token iff strconv.ParseInt(tok, 10, 64) does")
		if werr == nil {
			vCover("parsed")
			vAssert(len(v) == 2 && v[0] == first && v[1] == int(want), "C13: the parse is not what was appended")
		} else {
			vCover("rejected")
			vAssert(len(v) == 1 && v[0] == first, "C13: a rejected token modified the list")
		}
	case 6: // floats
		v := []float64{2.5}
		err := NewFloats64(&v, v).Set(tok)
		want, werr := strconv.ParseFloat(tok, 64)
		vObserve("err", err != nil)
		vAssert((err == nil) == (werr == nil), "C13: Floats64Value.Set accepts a token iff strconv.ParseFloat(tok, 64) does")
		if werr == nil {
			vCover("parsed")
			vAssert(len(v) == 2 && v[0] == 2.5 && math.Float64bits(v[1]) == math.Float64bits(want), "C13: the parse is not what was appended")
		} else {
			vCover("rejected")
			vAssert(len(v) == 1 && v[0] == 2.5, "C13: a rejected token modified the list")
		}
	}
}
