package lexer

// Harnesses for the spec lexer (C08 H_lex_ref, C03 H_lex_total).
// The reference is the longest-match scanner of DESIGN.md 4.6 / D.1, driven by
// character-class tables instead of a switch over the current byte.

func init() {
	vRegister("H_lex_ref", H_lex_ref)
	vRegister("H_lex_total", H_lex_total)
}

type rtok struct {
	typ  TokenType
	text string
	pos  int
}

const (
	ccBlank = iota
	ccPunct
	ccDot
	ccEq
	ccDash
	ccUpper
	ccLower
	ccDigit
	ccUnder
	ccLt
	ccGt
	ccOther
)

func vClass(c byte) int {
	switch {
	case c == ' ' || c == '\t':
		return ccBlank
	case c == '[' || c == ']' || c == '(' || c == ')' || c == '|':
		return ccPunct
	case c == '.':
		return ccDot
	case c == '=':
		return ccEq
	case c == '-':
		return ccDash
	case c >= 'A' && c <= 'Z':
		return ccUpper
	case c >= 'a' && c <= 'z':
		return ccLower
	case c >= '0' && c <= '9':
		return ccDigit
	case c == '_':
		return ccUnder
	case c == '<':
		return ccLt
	case c == '>':
		return ccGt
	}
	return ccOther
}

func vPunctType(c byte) TokenType {
	switch c {
	case '[':
		return TTOpenSq
	case ']':
		return TTCloseSq
	case '(':
		return TTOpenPar
	case ')':
		return TTClosePar
	}
	return TTChoice
}

// refLex returns the token list, or ok=false with the range [errLo, errHi] in which
// the reported error position must lie (from the start of the offending token to
// the byte where the scanner can know).
func refLex(s string) (toks []rtok, ok bool, errLo, errHi int) {
	n := len(s)
	cls := make([]int, n)
	for i := 0; i < n; i++ {
		cls[i] = vClass(s[i])
	}
	isW0 := func(k int) bool { return k == ccUpper || k == ccLower || k == ccDigit || k == ccUnder }
	for i := 0; i < n; {
		switch cls[i] {
		case ccBlank:
			i++
		case ccPunct:
			toks = append(toks, rtok{vPunctType(s[i]), s[i : i+1], i})
			i++
		case ccDot:
			if i+2 < n && cls[i+1] == ccDot && cls[i+2] == ccDot {
				toks = append(toks, rtok{TTRep, "...", i})
				i += 3
			} else {
				hi := i + 1
				if hi < n && cls[hi] == ccDot {
					hi++
				}
				return nil, false, i, hi
			}
		case ccEq:
			if i+1 >= n || cls[i+1] != ccLt {
				return nil, false, i, i + 1
			}
			j := i + 2
			for j < n && cls[j] != ccGt {
				j++
			}
			if j >= n || j == i+2 {
				return nil, false, i, j
			}
			toks = append(toks, rtok{TTOptValue, s[i : j+1], i})
			i = j + 1
		case ccDash:
			if i+1 < n && cls[i+1] == ccDash {
				j := i + 2
				if j == n || cls[j] == ccBlank {
					toks = append(toks, rtok{TTDoubleDash, "--", i})
					i = j
					continue
				}
				if !isW0(cls[j]) {
					return nil, false, i, j
				}
				for j < n && (isW0(cls[j]) || cls[j] == ccDash) {
					j++
				}
				toks = append(toks, rtok{TTLongOpt, s[i:j], i})
				i = j
				continue
			}
			j := i + 1
			for j < n && (cls[j] == ccUpper || cls[j] == ccLower) {
				j++
			}
			if j == i+1 {
				return nil, false, i, i + 1 // dangling '-'
			}
			if j < n && cls[j] == ccDash {
				return nil, false, i, j
			}
			if j-i == 2 {
				toks = append(toks, rtok{TTShortOpt, s[i:j], i})
			} else {
				toks = append(toks, rtok{TTOptSeq, s[i+1 : j], i})
			}
			i = j
		case ccUpper:
			j := i + 1
			for j < n && (cls[j] == ccUpper || cls[j] == ccDigit || cls[j] == ccUnder) {
				j++
			}
			typ := TTArg
			if s[i:j] == "OPTIONS" {
				typ = TTOptions
			}
			toks = append(toks, rtok{typ, s[i:j], i})
			i = j
		default:
			return nil, false, i, i
		}
	}
	return toks, true, 0, 0
}

// H_lex_ref: Tokenize agrees with the reference on every byte string of length <= Ls:
// same verdict, same tokens (type, text, position), tokens tile the non-blank bytes,
// error position inside the string at the offending token.
func H_lex_ref() {
	ls := vParamInt("Ls")
	spec := vNondetString("spec", ls)
	toks, err := Tokenize(spec)
	want, ok, lo, hi := refLex(spec)
	vObserve("ok", err == nil)
	if !ok {
		if err == nil {
			// known findings are keyed on the offending byte
			if spec[lo] == '-' && (lo+1 >= len(spec) || spec[lo+1] != '-') && vKnownFinding("F4") {
				vCover("KNOWN:F4")
				return
			}
			vAssert(false, "Tokenize accepts an ill-formed spec")
		}
		vCover("rejected")
		pe, isPE := err.(*ParseError)
		vAssert(isPE, "error is not a *ParseError")
		vObserve("pos", pe.Pos)
		vAssert(pe.Pos >= 0 && pe.Pos <= len(spec), "error position outside the string")
		vAssert(pe.Pos >= lo && pe.Pos <= hi, "error position not at the offending token")
		vAssert(pe.Input == spec, "error does not carry the input")
		return
	}
	if err != nil {
		pe, _ := err.(*ParseError)
		if pe != nil && pe.Pos > 0 && pe.Pos <= len(spec) && pe.Pos < len(spec) && spec[pe.Pos] == '\t' && vKnownFinding("F8") {
			vCover("KNOWN:F8")
			return
		}
		vAssert(false, "Tokenize rejects a well-formed spec")
	}
	vCover("accepted")
	vObserve("ntok", len(toks))
	vAssert(len(toks) == len(want), "token count differs from the reference")
	covered := 0
	prevEnd := 0
	for i, tk := range toks {
		w := want[i]
		vAssert(tk.Typ == w.typ, "token type differs")
		vAssert(tk.Val == w.text, "token text differs")
		vAssert(tk.Pos == w.pos, "token position differs")
		// tiling: text is what the spec holds at Pos (a fold drops its dash)
		src := tk.Val
		if tk.Typ == TTOptSeq {
			src = "-" + src
		}
		vAssert(tk.Pos >= prevEnd, "tokens overlap or are out of order")
		vAssert(tk.Pos+len(src) <= len(spec), "token extends beyond the spec")
		vAssert(spec[tk.Pos:tk.Pos+len(src)] == src, "token text is not the text at its position")
		for k := prevEnd; k < tk.Pos; k++ {
			vAssert(spec[k] == ' ' || spec[k] == '\t', "non-blank byte belongs to no token")
		}
		prevEnd = tk.Pos + len(src)
		covered += len(src)
	}
	for k := prevEnd; k < len(spec); k++ {
		vAssert(spec[k] == ' ' || spec[k] == '\t', "non-blank byte belongs to no token")
	}
}

// H_lex_total: Tokenize and ParseError.Error never raise a runtime error; an error
// carries a position inside the string.
func H_lex_total() {
	ls := vParamInt("Ls")
	spec := vNondetString("spec", ls)
	var rec interface{}
	var err error
	func() {
		defer func() { rec = recover() }()
		_, err = Tokenize(spec)
		if err != nil {
			pe := err.(*ParseError)
			vAssert(pe.Pos >= 0 && pe.Pos <= len(pe.Input), "ParseError.Pos outside Input")
			_ = pe.Error()
			vCover("error-rendered")
		} else {
			vCover("accepted")
		}
	}()
	vObserve("ok", err == nil)
	vAssert(rec == nil, "Tokenize or ParseError.Error panicked")
}
